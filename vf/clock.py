"""E4 - virtual clock replacing `matchingproblems.solver.solver.datetime`."""
from __future__ import annotations

import datetime as _dt


class VirtualClock:
    BASE = _dt.datetime(2020, 1, 1, 12, 0, 0)

    def __init__(self):
        self.us = 0
        self.calls = 0

    def advance_us(self, n):
        self.us += int(n)

    # the shim is used as `datetime.datetime.now()`
    @property
    def datetime(self):
        return self

    def now(self):
        self.calls += 1
        self.us += 1
        return self.BASE + _dt.timedelta(microseconds=self.us)

    # anything else the library might ask of the datetime module
    def __getattr__(self, name):
        return getattr(_dt, name)


def _targets():
    """Every matchingproblems module that refers to the datetime module (or to
    the datetime class) under the name `datetime`: the clock is owned wherever
    the library can read it, not only in solver.py."""
    import sys
    import matchingproblems.solver.solver  # noqa: make sure it is loaded
    out = []
    for name, mod in list(sys.modules.items()):
        if not name.startswith("matchingproblems") or mod is None:
            continue
        cur = getattr(mod, "datetime", None)
        if cur is _dt or cur is _dt.datetime or isinstance(cur, VirtualClock):
            out.append(mod)
    return out


_SAVED = {}


def install(clock):
    for mod in _targets():
        cur = getattr(mod, "datetime")
        if not isinstance(cur, VirtualClock):
            _SAVED[mod.__name__] = cur
        mod.datetime = clock


def uninstall():
    import sys
    for name, orig in _SAVED.items():
        mod = sys.modules.get(name)
        if mod is not None:
            mod.datetime = orig
