"""E4 - virtual clock replacing `matchingproblems.solver.solver.datetime`."""
from __future__ import annotations

import datetime as _dt


class VirtualClock:
    BASE = _dt.datetime(2020, 1, 1, 12, 0, 0)

    def __init__(self):
        self.us = 0
        self.calls = 0

    def advance_us(self, n):
        self.us += int(n)

    # the shim is used as `datetime.datetime.now()`
    @property
    def datetime(self):
        return self

    def now(self):
        self.calls += 1
        self.us += 1
        return self.BASE + _dt.timedelta(microseconds=self.us)

    # anything else the library might ask of the datetime module
    def __getattr__(self, name):
        return getattr(_dt, name)


def install(clock):
    import matchingproblems.solver.solver as S
    S.datetime = clock


def uninstall():
    import matchingproblems.solver.solver as S
    S.datetime = _dt
