"""E5 - abstract instances, exhaustive instance families, file renderers.

An abstract instance is a plain tuple structure; it is the single source of
truth for both the file handed to the library and the oracle (vf/ref.py).
Nothing in this module imports matchingproblems.
"""
from __future__ import annotations

import itertools
from collections import namedtuple
from functools import lru_cache

# kind   : 2 (HA/SM/HR file layout) or 3 (SPA file layout)
# ns,np,nl
# sprefs : per student, tuple of tie groups, each a tuple of project ids (1-based)
# lect   : per project, lecturer id (1-based)
# pq     : per project (lq, uq)
# lq3    : per lecturer (lq, target, uq)
# lprefs : None (one-sided) or per lecturer a tuple of tie groups of student ids
Inst = namedtuple("Inst", "kind ns np nl sprefs lect pq lq3 lprefs")


# --------------------------------------------------------------------------
# weak orders
# --------------------------------------------------------------------------

@lru_cache(maxsize=None)
def weak_orders(items):
    """All weak orders (ordered set partitions) of the tuple `items`."""
    items = tuple(items)
    if not items:
        return ((),)
    out = []
    n = len(items)
    # choose the first tie group (non-empty subset), recurse on the rest
    for r in range(1, n + 1):
        for first in itertools.combinations(items, r):
            rest = tuple(x for x in items if x not in first)
            for tail in weak_orders(rest):
                out.append((first,) + tail)
    return tuple(out)


@lru_cache(maxsize=None)
def strict_orders(items):
    return tuple(tuple((x,) for x in perm) for perm in itertools.permutations(items))


@lru_cache(maxsize=None)
def student_lists(np_):
    """All weak orders over all non-empty subsets of projects 1..np."""
    out = []
    projs = tuple(range(1, np_ + 1))
    for r in range(1, np_ + 1):
        for sub in itertools.combinations(projs, r):
            out.extend(weak_orders(sub))
    return tuple(out)


def flat(groups):
    return [x for g in groups for x in g]


def acceptable_students(sprefs, lect, k):
    """Students (1-based) listing at least one project of lecturer k (1-based)."""
    out = []
    for i, groups in enumerate(sprefs):
        if any(lect[p - 1] == k for p in flat(groups)):
            out.append(i + 1)
    return tuple(out)


# --------------------------------------------------------------------------
# structures (everything except quotas)
# --------------------------------------------------------------------------

def structures(ns, np_, nl, two_sided, lists=None, lecturer_orders="all",
               lects=None):
    """Yield (sprefs, lect, lprefs) for every structure of the given size.

    lists: iterable of admissible per-student lists (default: all weak orders
    over non-empty subsets).  lecturer_orders: "all" weak orders, or
    "restricted" = {identity, reverse, all tied}.
    """
    per_student = student_lists(np_) if lists is None else tuple(lists)
    if lects is None:
        lects = list(itertools.product(range(1, nl + 1), repeat=np_))
    for sprefs in itertools.product(per_student, repeat=ns):
        for lect in lects:
            if not two_sided:
                yield sprefs, tuple(lect), None
                continue
            per_lect = []
            for k in range(1, nl + 1):
                acc = acceptable_students(sprefs, lect, k)
                if lecturer_orders == "all":
                    per_lect.append(weak_orders(acc))
                else:
                    opts = []
                    for o in (tuple((x,) for x in acc),
                              tuple((x,) for x in reversed(acc)),
                              ((acc,) if acc else ())):
                        if o not in opts:
                            opts.append(o)
                    per_lect.append(tuple(opts))
            for lprefs in itertools.product(*per_lect):
                yield sprefs, tuple(lect), tuple(lprefs)


def structures_2agent(ns, nh, two_sided, lists=None):
    """2-agent structures: lect = identity, nl = nh."""
    lect = tuple(range(1, nh + 1))
    yield from structures(ns, nh, nh, two_sided, lists=lists, lects=[lect])


# --------------------------------------------------------------------------
# quota profiles
# --------------------------------------------------------------------------

def _lect_load_cap(lect, pq, k):
    return sum(uq for (lq, uq), l in zip(pq, lect) if l == k)


def quota_profiles3(ns, np_, nl, lect):
    """Quota profiles P for a 3-agent structure: list of (name, pq, lq3)."""
    P = []
    unit_p = tuple((0, 1) for _ in range(np_))
    two_p = tuple((0, 2) for _ in range(np_))

    def lec(lq, t, uq):
        return tuple((lq, t, uq) for _ in range(nl))

    P.append(("unit", unit_p, lec(0, 1, 1)))
    P.append(("cap2", two_p, lec(0, 1, 2)))
    P.append(("p1lq1", ((1, 1),) + unit_p[1:], lec(0, 1, 2)))
    P.append(("lq=uq2", tuple((2, 2) for _ in range(np_)), lec(0, 2, 3)))
    P.append(("lectight", two_p, lec(0, 0, 1)))
    P.append(("p1zero", ((0, 0),) + two_p[1:], lec(0, 1, 2)))
    P.append(("l1zero", two_p, ((0, 0, 0),) + lec(0, 1, 2)[1:]))
    P.append(("target-in", two_p, lec(0, 2, 3)))
    P.append(("leclq1", two_p, lec(1, 1, 2)))
    P.append(("plast-lq1uq2", unit_p[:-1] + ((1, 2),), lec(0, 1, 3)))
    P.append(("p1lq2uq3", ((2, 3),) + two_p[1:], lec(0, 2, 3)))
    return P


def quota_profiles2(ns, nh):
    """Quota profiles for 2-agent files: list of (name, pq)."""
    P = []
    P.append(("unit", tuple((0, 1) for _ in range(nh))))
    P.append(("cap2", tuple((0, 2) for _ in range(nh))))
    P.append(("h1lq1", ((1, 1),) + tuple((0, 1) for _ in range(nh - 1))))
    P.append(("h1zero", ((0, 0),) + tuple((0, 2) for _ in range(nh - 1))))
    P.append(("lq1uq2", tuple((1, 2) for _ in range(nh))))
    P.append(("h1lq2uq3", ((2, 3),) + tuple((0, 2) for _ in range(nh - 1))))
    return P


PROJECT_PAIRS = ((0, 0), (0, 1), (0, 2), (1, 1), (1, 2), (2, 2))


def lecturer_triples(maxq):
    return tuple((lq, t, uq) for uq in range(maxq + 1)
                 for t in range(uq + 1) for lq in range(t + 1))


def make3(ns, np_, nl, sprefs, lect, lprefs, pq, lq3):
    return Inst(3, ns, np_, nl, tuple(sprefs), tuple(lect), tuple(pq),
                tuple(lq3), None if lprefs is None else tuple(lprefs))


def make2(ns, nh, sprefs, lprefs, pq):
    lq3 = tuple((lq, uq, uq) for lq, uq in pq)
    return Inst(2, ns, nh, nh, tuple(sprefs), tuple(range(1, nh + 1)),
                tuple(pq), lq3, None if lprefs is None else tuple(lprefs))


# --------------------------------------------------------------------------
# families
# --------------------------------------------------------------------------

SIZES_A = [(1, 1), (1, 2), (2, 1), (2, 2), (1, 3), (3, 1)]


def family_A(two_sided, profiles=None, nls=(1, 2)):
    """Every structure with ns+np<=4, nl in nls, crossed with profiles P."""
    for ns, np_ in SIZES_A:
        for nl in nls:
            for sprefs, lect, lprefs in structures(ns, np_, nl, two_sided):
                for name, pq, lq3 in quota_profiles3(ns, np_, nl, lect):
                    if profiles is not None and name not in profiles:
                        continue
                    yield make3(ns, np_, nl, sprefs, lect, lprefs, pq, lq3)


def family_L(two_sided, profiles=None):
    yield from family_A(two_sided, profiles=profiles, nls=(3,))


def family_B(two_sided, profiles=("unit", "cap2", "p1lq1", "lectight"),
             nls=(1, 2)):
    for ns, np_ in [(2, 3), (3, 2)]:
        for nl in nls:
            for sprefs, lect, lprefs in structures(ns, np_, nl, two_sided):
                for name, pq, lq3 in quota_profiles3(ns, np_, nl, lect):
                    if name not in profiles:
                        continue
                    yield make3(ns, np_, nl, sprefs, lect, lprefs, pq, lq3)


def family_C(two_sided=True, profiles=("unit", "cap2", "lectight")):
    """3x3 restricted: strict complete student lists, nl<=2, restricted
    lecturer orders."""
    lists = strict_orders((1, 2, 3))
    for nl in (1, 2):
        for sprefs, lect, lprefs in structures(
                3, 3, nl, two_sided, lists=lists,
                lecturer_orders="restricted"):
            for name, pq, lq3 in quota_profiles3(3, 3, nl, lect):
                if name not in profiles:
                    continue
                yield make3(3, 3, nl, sprefs, lect, lprefs, pq, lq3)


Q_STRUCTS = [
    # (ns, np, nl, sprefs, lect, lprefs)
    (2, 2, 2, (((1,), (2,)), ((1,), (2,))), (1, 2), (((1,), (2,)), ((2,), (1,)))),
    (2, 2, 2, (((1, 2),), ((2,), (1,))), (1, 2), (((1, 2),), ((2,), (1,)))),
    (2, 2, 1, (((1,), (2,)), ((2,), (1,))), (1, 1), (((2,), (1,)),)),
    (2, 2, 1, (((1,),), ((1,), (2,))), (1, 1), (((1, 2),),)),
    (2, 2, 2, (((2,), (1,)), ((2,),)), (1, 2), (((1,),), ((2,), (1,)))),
    (2, 2, 2, (((1,), (2,)), ((1, 2),)), (2, 2), ((), ((1,), (2,)))),
]


def family_Q(two_sided, maxlq=2):
    trip = lecturer_triples(maxlq)
    for ns, np_, nl, sprefs, lect, lprefs in Q_STRUCTS:
        for pq in itertools.product(PROJECT_PAIRS, repeat=np_):
            for lq3 in itertools.product(trip, repeat=nl):
                yield make3(ns, np_, nl, sprefs, lect,
                            lprefs if two_sided else None, pq, lq3)


def family_T(two_sided, maxlq=2):
    """(ns,np,nl) <= (2,2,2): every structure x full quota product."""
    trip = lecturer_triples(maxlq)
    for ns in (1, 2):
        for np_ in (1, 2):
            for nl in (1, 2):
                for sprefs, lect, lprefs in structures(ns, np_, nl, two_sided):
                    for pq in itertools.product(PROJECT_PAIRS, repeat=np_):
                        for lq3 in itertools.product(trip, repeat=nl):
                            yield make3(ns, np_, nl, sprefs, lect, lprefs, pq, lq3)


HR_SIZES = [(1, 1), (1, 2), (2, 1), (2, 2), (1, 3), (3, 1), (2, 3), (3, 2)]


def family_HR(two_sided, full_quotas=False, sizes=None):
    for ns, nh in (sizes or HR_SIZES):
        for sprefs, lect, lprefs in structures_2agent(ns, nh, two_sided):
            if full_quotas:
                for pq in itertools.product(PROJECT_PAIRS, repeat=nh):
                    yield make2(ns, nh, sprefs, lprefs, pq)
            else:
                for name, pq in quota_profiles2(ns, nh):
                    yield make2(ns, nh, sprefs, lprefs, pq)


def family_Q3(two_sided=False, maxuq=3):
    """3 students x 2 projects x 2 lecturers (lect = identity), strict lists
    over {1,2}, project quotas from a small set, heterogeneous lecturer
    (target, uq) with lq = 0: shapes where a smaller matching is the optimum
    of a load criterion and is enumerated after a larger one."""
    lists = (((1,),), ((2,),), ((1,), (2,)), ((2,), (1,)))
    pqs = ((0, 1), (0, 2), (0, 3), (1, 2))
    lts = tuple((0, t, uq) for uq in range(1, maxuq + 1) for t in range(uq + 1))
    for sprefs in itertools.product(lists, repeat=3):
        lprefs = None
        if two_sided:
            lprefs = tuple(tuple((x,) for x in acceptable_students(sprefs, (1, 2), k))
                           for k in (1, 2))
        for pq in itertools.product(pqs, repeat=2):
            for lq3 in itertools.product(lts, repeat=2):
                yield make3(3, 2, 2, sprefs, (1, 2), lprefs, pq, lq3)


def family_F4(profiles=("unit", "cap2", "lectight")):
    """Student lists over FOUR projects (ties of three ahead of a further
    entry, two ties in one list): student 1 has every weak order of {1,2,3,4},
    student 2 a short fixed list; three project->lecturer maps; restricted
    lecturer orders."""
    firsts = weak_orders((1, 2, 3, 4))
    seconds = (((1,),), ((3,), (4,)), ((2, 4),))
    for lect in ((1, 1, 1, 1), (1, 1, 2, 2), (1, 2, 1, 2)):
        nl = max(lect)
        for a in firsts:
            for b in seconds:
                sprefs = (a, b)
                per = []
                for k in range(1, nl + 1):
                    acc = acceptable_students(sprefs, lect, k)
                    opts = []
                    for o in (tuple((x,) for x in acc), tuple((x,) for x in reversed(acc)),
                              ((acc,) if acc else ())):
                        if o not in opts:
                            opts.append(o)
                    per.append(opts)
                for lprefs in itertools.product(*per):
                    for name, pq, lq3 in quota_profiles3(2, 4, nl, lect):
                        if name in profiles:
                            yield make3(2, 4, nl, sprefs, lect, tuple(lprefs), pq, lq3)


def family_M(sizes=(4, 5), nls=(2, 3)):
    """Medium structured instances (4-5 students, 4 projects, 2-3 lecturers):
    cyclic / crossing preference patterns on a deterministic grid - list
    length, step of the cycle, tie pattern, lecturer order pattern, quotas."""
    np_ = 4
    for ns in sizes:
        for nl in nls:
            lect = tuple((p % nl) + 1 for p in range(np_))
            for k in (2, 3):
                for step in (1, 3):
                    for tie in ("none", "last2", "all"):
                        sprefs = []
                        for i in range(ns):
                            lst = []
                            for j in range(k):
                                p = (i + j * step) % np_ + 1
                                if p not in lst:
                                    lst.append(p)
                            if tie == "none" or len(lst) == 1:
                                groups = tuple((p,) for p in lst)
                            elif tie == "all":
                                groups = (tuple(lst),)
                            else:
                                groups = tuple((p,) for p in lst[:-2]) + (tuple(lst[-2:]),)
                            sprefs.append(groups)
                        sprefs = tuple(sprefs)
                        for lorder in ("asc", "desc", "cross"):
                            lprefs = []
                            for kk in range(1, nl + 1):
                                acc = list(acceptable_students(sprefs, lect, kk))
                                if lorder == "desc" or (lorder == "cross" and kk % 2 == 0):
                                    acc = acc[::-1]
                                if lorder == "cross" and len(acc) >= 3:
                                    lprefs.append(((acc[0],), tuple(acc[1:3])) +
                                                  tuple((x,) for x in acc[3:]))
                                else:
                                    lprefs.append(tuple((x,) for x in acc))
                            lprefs = tuple(lprefs)
                            for puq in (1, 2):
                                for plq in (0, 1):
                                    pq = ((plq, puq),) + tuple((0, puq) for _ in range(np_ - 1))
                                    luq = -(-ns // nl) + (puq - 1)
                                    lq3 = tuple((0, 1, luq) for _ in range(nl))
                                    yield make3(ns, np_, nl, sprefs, lect, lprefs, pq, lq3)


def family_W(big=True):
    """Multi-digit ids: 12 projects (2 students) and 11 students (2 projects).
    big=False leaves out the 11-student instances."""
    out = []
    lists = [w for sub in ((1,), (10,), (12,), (1, 10), (10, 12), (2, 11), (1, 10, 12))
             for w in weak_orders(sub)]
    lect = tuple(1 if p <= 6 else 2 for p in range(1, 13))
    for a in lists:
        for b in lists[::3]:
            sprefs = (a, b)
            lprefs = tuple(weak_orders(acceptable_students(sprefs, lect, k))[-1]
                           for k in (1, 2))
            out.append(make3(2, 12, 2, sprefs, lect, lprefs,
                             tuple((0, 1) for _ in range(12)), ((0, 1, 2), (0, 1, 2))))
            hl = tuple(weak_orders(acceptable_students(sprefs, tuple(range(1, 13)), k))[-1]
                       for k in range(1, 13))
            out.append(make2(2, 12, sprefs, hl, tuple((0, 1) for _ in range(12))))
    if big:
        sprefs = tuple(((1 + (i % 2),),) for i in range(11))
        lp = tuple(weak_orders(acceptable_students(sprefs, (1, 2), k))[7] for k in (1, 2))
        out.append(make3(11, 2, 2, sprefs, (1, 2), lp, ((0, 6), (0, 6)),
                         ((0, 3, 6), (0, 3, 6))))
        out.append(make2(11, 2, sprefs, lp, ((0, 6), (0, 6))))
        out.extend(family_W2())
    return out


def family_W3():
    """Ids above 256 (CPython caches small ints only up to 256, so `is` on ids
    stops working there): 3 students, 302 projects of which only four are ever
    listed, 2 lecturers.  The contested projects are 257/258 and 301/302, with
    11/12 as the small-id control of the same shape."""
    out = []
    for a, b in ((11, 12), (257, 258), (301, 302)):
        npj = 302
        lect = tuple(1 if p % 2 else 2 for p in range(1, npj + 1))
        sprefs = (((a,), (b,)), ((a,), (b,)), ((b,), (a,)))
        l1 = ((1,), (2,), (3,)) if a % 2 else ((3,), (2,), (1,))
        lp = {1: l1, 2: ((3,), (1,), (2,))}
        # each student lists a (lecturer of a) and b (lecturer of b)
        la, lb = lect[a - 1], lect[b - 1]
        lprefs = [None, None]
        lprefs[la - 1] = ((1,), (2,), (3,))
        lprefs[lb - 1] = ((3,), (1,), (2,)) if lb != la else lprefs[la - 1]
        pq = tuple((0, 1) for _ in range(npj))
        out.append(make3(3, npj, 2, sprefs, lect, tuple(lprefs), pq, ((0, 1, 2), (0, 1, 2))))
    return out


def family_W2():
    """Two-digit ids on BOTH sides: 11 students x 11 projects/hospitals, with
    the pairs (1,11) and (11,1) present and ranked differently (textual
    concatenation of ids, e.g. '1'+'11' == '11'+'1', must not matter)."""
    sp = [((i,),) for i in range(1, 12)]
    sp[0] = ((1,), (11,))
    sp[10] = ((11,), (1,))
    sp = tuple(sp)
    ident = tuple(range(1, 12))
    lp = [((i,),) for i in range(1, 12)]
    lp[0] = ((11,), (1,))        # agent 1 prefers 11 to 1
    lp[10] = ((11,), (1,))       # agent 11 prefers 11 to 1
    lp = tuple(lp)
    pq = tuple((0, 1) for _ in range(11))
    out = [make2(11, 11, sp, lp, pq),
           make3(11, 11, 11, sp, ident, lp, pq, tuple((0, 1, 1) for _ in range(11)))]
    # a shared lecturer with two-digit project ids
    lect = tuple(1 if p <= 9 else 2 for p in range(1, 12))
    l1 = tuple((i,) for i in range(1, 10)) + ((11,),)     # students listing p1..p9 (+ s11 lists p1)
    l2 = ((11,), (10,), (1,))                              # p10, p11: students 10, 11, 1
    out.append(make3(11, 11, 2, sp, lect, (l1, l2), pq, ((0, 5, 9), (0, 1, 2))))
    return out


# --------------------------------------------------------------------------
# rendering
# --------------------------------------------------------------------------

def render_groups(groups, sep=" ", reverse_in_group=False):
    toks = []
    for g in groups:
        g = list(g)
        if reverse_in_group:
            g = g[::-1]
        if len(g) == 1:
            toks.append(str(g[0]))
        else:
            toks.append("(" + str(g[0]))
            toks.extend(str(x) for x in g[1:-1])
            toks.append(str(g[-1]) + ")")
    return sep.join(toks)


def render(inst, sep=" ", trailing="", info_block=False, final_newline=True,
           reverse_in_group=False, include_second_side=True):
    """Render an abstract instance in the documented file format.

    include_second_side=False omits the second-side lists even if present in
    the abstract instance (used for one-sided rendering of two-sided data).
    """
    colon = ":" + sep
    lines = []
    if inst.kind == 3:
        lines.append(sep.join(str(x) for x in (inst.ns, inst.np, inst.nl)))
    else:
        lines.append(sep.join(str(x) for x in (inst.ns, inst.np)))
    for i, groups in enumerate(inst.sprefs):
        lines.append(str(i + 1) + colon +
                     render_groups(groups, sep, reverse_in_group))
    if inst.kind == 3:
        for j, (lq, uq) in enumerate(inst.pq):
            lines.append(colon.join(str(x) for x in
                                    (j + 1, lq, uq, inst.lect[j])))
        for k, (lq, t, uq) in enumerate(inst.lq3):
            s = colon.join(str(x) for x in (k + 1, lq, t, uq)) + ":"
            if inst.lprefs is not None and include_second_side:
                body = render_groups(inst.lprefs[k], sep, reverse_in_group)
                if body:
                    s += sep + body
            lines.append(s)
    else:
        for j, (lq, uq) in enumerate(inst.pq):
            s = colon.join(str(x) for x in (j + 1, lq, uq)) + ":"
            if inst.lprefs is not None and include_second_side:
                body = render_groups(inst.lprefs[j], sep, reverse_in_group)
                if body:
                    s += sep + body
            lines.append(s)
    text = "\n".join(l + trailing for l in lines)
    if info_block:
        text += "\n\ninstance generation parameters\nnumber_of_agents_type_1: %d\nskew_for_agent_1: 1.0" % inst.ns
    if final_newline:
        text += "\n"
    return text


def base_argv(inst, path, twopl=None):
    argv = ["-f", path, "-na", str(inst.kind)]
    if twopl is None:
        twopl = inst.lprefs is not None
    if twopl:
        argv.append("-twopl")
    return argv


def max_rank(inst):
    return max(len(g) for g in inst.sprefs)


def to_json(inst):
    return {"kind": inst.kind, "ns": inst.ns, "np": inst.np, "nl": inst.nl,
            "sprefs": [[list(g) for g in s] for s in inst.sprefs],
            "lect": list(inst.lect), "pq": [list(x) for x in inst.pq],
            "lq3": [list(x) for x in inst.lq3],
            "lprefs": None if inst.lprefs is None else
            [[list(g) for g in s] for s in inst.lprefs]}


def from_json(d):
    return Inst(d["kind"], d["ns"], d["np"], d["nl"],
                tuple(tuple(tuple(g) for g in s) for s in d["sprefs"]),
                tuple(d["lect"]), tuple(tuple(x) for x in d["pq"]),
                tuple(tuple(x) for x in d["lq3"]),
                None if d["lprefs"] is None else
                tuple(tuple(tuple(g) for g in s) for s in d["lprefs"]))
