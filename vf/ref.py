"""E6 - reference semantics.  Deliberately boring; never imports
matchingproblems.  All functions work on vf.instances.Inst and on matchings
given as tuples M with M[i] = project id (1-based) of student i+1, 0 = none.
"""
from __future__ import annotations

import itertools
from functools import lru_cache


def srank(inst):
    """Per student: dict project -> rank (dense, ties share a rank)."""
    out = []
    for groups in inst.sprefs:
        d = {}
        for r, g in enumerate(groups):
            for p in g:
                d[p] = r + 1
        out.append(d)
    return out


def lrank(inst):
    """Per lecturer: dict student -> rank, or None if one-sided."""
    if inst.lprefs is None:
        return None
    out = []
    for groups in inst.lprefs:
        d = {}
        for r, g in enumerate(groups):
            for s in g:
                d[s] = r + 1
        out.append(d)
    return out


def R(inst):
    return max(len(g) for g in inst.sprefs)


def assignments(inst):
    """All functions student -> listed project or 0."""
    dom = [[0] + sorted(p for g in groups for p in g) for groups in inst.sprefs]
    return itertools.product(*dom)


def loads(inst, M):
    pl = [0] * inst.np
    ll = [0] * inst.nl
    for p in M:
        if p:
            pl[p - 1] += 1
            ll[inst.lect[p - 1] - 1] += 1
    return pl, ll


def valid(inst, M, pc=False, lower=True):
    """Valid matching.  lower=False ignores lower quotas (C06's domain)."""
    sr = srank(inst)
    for i, p in enumerate(M):
        if p and p not in sr[i]:
            return False
    pl, ll = loads(inst, M)
    for j, (lq, uq) in enumerate(inst.pq):
        n = pl[j]
        if pc and n == 0:
            continue
        if n > uq:
            return False
        if lower and n < lq:
            return False
    for k, (lq, t, uq) in enumerate(inst.lq3):
        if ll[k] > uq:
            return False
        if lower and ll[k] < lq:
            return False
    return True


def validity_defects(inst, M, pc=False):
    """Reasons why M is not a valid matching (empty list = valid)."""
    out = []
    sr = srank(inst)
    if len(M) != inst.ns:
        return ["matching-length"]
    for i, p in enumerate(M):
        if p and p not in sr[i]:
            out.append("unlisted-project")
    if out:
        return sorted(set(out))
    pl, ll = loads(inst, M)
    for j, (lq, uq) in enumerate(inst.pq):
        n = pl[j]
        if pc and n == 0:
            continue
        if n > uq:
            out.append("project-over-uq")
        if n < lq:
            out.append("project-under-lq")
    for k, (lq, t, uq) in enumerate(inst.lq3):
        if ll[k] > uq:
            out.append("lecturer-over-uq")
        if ll[k] < lq:
            out.append("lecturer-under-lq")
    return sorted(set(out))


def blocking_pairs(inst, M):
    """SPA-STL blocking pairs of M: list of (student, project, kinds)."""
    sr = srank(inst)
    lr = lrank(inst)
    assert lr is not None
    pl, ll = loads(inst, M)
    out = []
    for i in range(inst.ns):
        s = i + 1
        cur = M[i]
        for p, rp in sr[i].items():
            # (2) s unassigned or strictly prefers p to M(s)
            if cur != 0 and not (rp < sr[i][cur]):
                continue
            k = inst.lect[p - 1]
            p_under = pl[p - 1] < inst.pq[p - 1][1]
            l_under = ll[k - 1] < inst.lq3[k - 1][2]
            rs = lr[k - 1][s]
            # assignees of lecturer k / of project p
            Ml = [t + 1 for t, q in enumerate(M) if q and inst.lect[q - 1] == k]
            Mp = [t + 1 for t, q in enumerate(M) if q == p]
            kinds = []
            if p_under and l_under:
                kinds.append("3a")
            if p_under and not l_under:
                s_in_Ml = s in Ml
                worst = max((lr[k - 1][t] for t in Ml), default=None)
                if s_in_Ml or (worst is not None and rs < worst):
                    kinds.append("3b")
            if not p_under:
                worst = max((lr[k - 1][t] for t in Mp), default=None)
                if worst is not None and rs < worst:
                    kinds.append("3c")
            if kinds:
                out.append((s, p, tuple(kinds)))
    return out


def stable(inst, M):
    return not blocking_pairs(inst, M)


def hr_blocking_pairs(inst, M):
    """Native HR(T) definition for 2-agent instances, written independently:
    (r,h) blocks if r is unassigned or strictly prefers h to M(r), and h is
    undersubscribed or strictly prefers r to its worst assignee."""
    assert inst.kind == 2
    sr = srank(inst)
    lr = lrank(inst)
    out = []
    for i in range(inst.ns):
        r = i + 1
        for h, rh in sr[i].items():
            if M[i] != 0 and sr[i][M[i]] <= rh:
                continue
            ass = [t + 1 for t, q in enumerate(M) if q == h]
            cap = inst.pq[h - 1][1]
            if len(ass) < cap:
                out.append((r, h))
            elif ass and max(lr[h - 1][t] for t in ass) > lr[h - 1][r]:
                out.append((r, h))
    return out


def stats(inst, M, twopl):
    sr = srank(inst)
    lr = lrank(inst) if twopl else None
    size = sum(1 for p in M if p)
    cs = cl = qs = ql = 0
    deg = 0
    prof = [0] * R(inst)
    for i, p in enumerate(M):
        if not p:
            continue
        r = sr[i][p]
        cs += r
        qs += r * r
        deg = max(deg, r)
        prof[r - 1] += 1
        if lr is not None:
            k = inst.lect[p - 1]
            rl = lr[k - 1][i + 1]
            cl += rl
            ql += rl * rl
    pl, ll = loads(inst, M)
    diffs = [abs(ll[k] - inst.lq3[k][1]) for k in range(inst.nl)]
    return {"size": size, "cost": (cs, cl), "cost_sq": (qs, ql),
            "degree": deg, "profile": tuple(prof),
            "max_lec_abs_diff": max(diffs) if diffs else 0,
            "sum_lec_abs_diff": sum(diffs), "ploads": tuple(pl),
            "lloads": tuple(ll)}


def feasible_set(inst, pc, stab):
    out = []
    for M in assignments(inst):
        if not valid(inst, M, pc):
            continue
        if stab and blocking_pairs(inst, M):
            continue
        out.append(M)
    return out


# --------------------------------------------------------------------------
# criteria
# --------------------------------------------------------------------------
# A criterion is (name, extras) with extras a tuple of ints as given on the
# command line after the position.  measure() returns a key such that the
# optimum is the MINIMUM key (maximisation is encoded by negation).

def criterion_key(inst, crit, twopl):
    name, extras = crit
    Rk = R(inst)

    def st(M):
        return stats(inst, M, twopl)

    if name == "maxsize":
        return lambda M: -st(M)["size"]
    if name == "minsize":
        return lambda M: st(M)["size"]
    if name == "gen":
        c = extras[0] if extras else 1
        lo = max(1, c)
        return lambda M: tuple(st(M)["profile"][r - 1]
                               for r in range(Rk, lo - 1, -1))
    if name == "gre":
        c = extras[0] if extras else Rk
        hi = min(c, Rk)
        return lambda M: tuple(-st(M)["profile"][r - 1]
                               for r in range(1, hi + 1))
    if name == "mincost":
        a = extras[0] if len(extras) > 0 else 1
        b = extras[1] if len(extras) > 1 else 0
        return lambda M: a * st(M)["cost"][0] + b * st(M)["cost"][1]
    if name == "minsqcost":
        a = extras[0] if len(extras) > 0 else 1
        b = extras[1] if len(extras) > 1 else 0
        return lambda M: a * st(M)["cost_sq"][0] + b * st(M)["cost_sq"][1]
    if name == "lmb":
        return lambda M: st(M)["max_lec_abs_diff"]
    if name == "lsb":
        return lambda M: st(M)["sum_lec_abs_diff"]
    if name == "mincostlsb":
        a = extras[0] if len(extras) > 0 else 1
        b = extras[1] if len(extras) > 1 else 1
        return lambda M: a * st(M)["cost"][0] + b * st(M)["sum_lec_abs_diff"]
    raise ValueError(name)


def lex_optimal_sets(inst, crits, pc, stab, twopl, S0=None):
    """Return [S0, S1, ..., Sn]: S_i = argopt of criterion i over S_{i-1}."""
    S = feasible_set(inst, pc, stab) if S0 is None else list(S0)
    out = [S]
    for crit in crits:
        if not S:
            out.append(S)
            continue
        key = criterion_key(inst, crit, twopl)
        vals = [key(M) for M in S]
        best = min(vals)
        S = [M for M, v in zip(S, vals) if v == best]
        out.append(S)
    return out


def num_solves(inst, crits):
    """Number of underlying solves the criteria list unfolds into."""
    Rk = R(inst)
    n = 0
    for name, extras in crits:
        if name == "gen":
            c = extras[0] if extras else 1
            n += len(range(Rk, max(0, c - 1), -1))
        elif name == "gre":
            c = extras[0] if extras else Rk
            n += len(range(1, min(c + 1, Rk + 1)))
        else:
            n += 1
    return n if crits else 1


# --------------------------------------------------------------------------
# brute-force statistics (C07)
# --------------------------------------------------------------------------

def bf_reference(inst, pc, twopl):
    V = [M for M in assignments(inst) if valid(inst, M, pc)]
    if not V:
        return None
    S = [stats(inst, M, twopl) for M in V]
    msize = max(s["size"] for s in S)
    top = [s for s in S if s["size"] == msize]

    def gen_key(p):
        return tuple(reversed(p))

    def gre_key(p):
        return tuple(-x for x in p)

    return {
        "optimal_size": msize,
        "optimal_maxsizemincost": min(s["cost"] for s in top),
        "optimal_maxsizemindegree": min(s["degree"] for s in top),
        "optimal_maxsizeminsqcost": min(s["cost_sq"] for s in top),
        "optimal_generousmaxprofile": min((s["profile"] for s in top), key=gen_key),
        "optimal_greedymaxprofile": min((s["profile"] for s in top), key=gre_key),
        "optimal_greedyprofile": min((s["profile"] for s in S), key=gre_key),
        "optimal_max_lec_abs_diff": min(s["max_lec_abs_diff"] for s in S),
        "optimal_sum_lec_abs_diff": min(s["sum_lec_abs_diff"] for s in S),
    }


# --------------------------------------------------------------------------
# self cross-check of the reference (run by checks before trusting it)
# --------------------------------------------------------------------------

def selfcheck_hr(inst):
    """On a two-sided 2-agent instance the SPA-STL definition must coincide
    with the native HR definition on every assignment respecting capacities."""
    assert inst.kind == 2 and inst.lprefs is not None
    n = 0
    for M in assignments(inst):
        if not valid(inst, M, pc=False, lower=False):
            continue
        a = sorted((s, p) for s, p, _ in blocking_pairs(inst, M))
        b = sorted(hr_blocking_pairs(inst, M))
        if a != b:
            raise AssertionError("reference self-check failed: %r %r %r %r"
                                 % (inst, M, a, b))
        n += 1
    return n
