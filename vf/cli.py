"""Entry point: ./check CNN [--tier quick|thorough] [--replay file]"""
from __future__ import annotations

import argparse
import importlib
import os
import sys


def main(argv=None):
    ap = argparse.ArgumentParser(prog="check")
    ap.add_argument("property")
    ap.add_argument("--tier", default=os.environ.get("VERIF_TIER") or "quick",
                    choices=["quick", "thorough"])
    ap.add_argument("--replay")
    a = ap.parse_args(argv)
    pid = a.property.upper()
    # the code under test: /repo's working tree (VERIF_REPO only for trying
    # seeded changes in a scratch worktree without touching /repo)
    repo = os.environ.get("VERIF_REPO") or "/repo"
    if repo in sys.path:
        sys.path.remove(repo)
    sys.path.insert(0, repo)
    import matchingproblems
    if not os.path.abspath(matchingproblems.__file__).startswith(os.path.abspath(repo) + "/"):
        print("HARNESS-ERROR matchingproblems imported from %s, not %s" % (
            matchingproblems.__file__, repo))
        return 2
    sys.setrecursionlimit(10000)
    from . import lprun
    lprun.root()
    from . import evidence, pool
    pool.KNOWN_FPS = set(evidence.known_for(pid))
    if a.tier == "thorough" and not a.replay:
        import time
        budget = float(os.environ.get("VERIF_THOROUGH_BUDGET_S", "3000"))
        pool.DEADLINE = time.time() + budget
    mod = importlib.import_module("vf.checks." + pid.lower())
    if a.replay:
        return mod.replay(a.replay)
    print("== check %s tier=%s seed=%s" % (pid, a.tier,
                                           os.environ.get("VERIF_SEED", "0")),
          flush=True)
    return mod.main(a.tier)


if __name__ == "__main__":
    sys.exit(main())
