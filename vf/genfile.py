"""Own parser of the generator's output format + the C08/C12 oracles.
Never imports matchingproblems."""
from __future__ import annotations


class Bad(Exception):
    pass


def parse_pref_tokens(toks):
    """tokens -> list of tie groups (lists of ints).  Enforces balanced,
    non-nested parentheses glued to first/last member, groups >= 2."""
    groups = []
    cur = None
    for t in toks:
        if t.startswith("("):
            if cur is not None:
                raise Bad("nested '('")
            body = t[1:]
            if body.endswith(")"):
                raise Bad("tie group of one entry")
            cur = [int(body)]
        elif t.endswith(")"):
            if cur is None:
                raise Bad("')' without '('")
            cur.append(int(t[:-1]))
            if len(cur) < 2:
                raise Bad("tie group of one entry")
            groups.append(cur)
            cur = None
        else:
            if "(" in t or ")" in t:
                raise Bad("stray parenthesis in %r" % t)
            if cur is not None:
                cur.append(int(t))
            else:
                groups.append([int(t)])
    if cur is not None:
        raise Bad("unbalanced '('")
    return groups


def split_fields(line):
    """'3: 0: 2: 1 (2 3)' -> ['3','0','2','1 (2 3)'] style split on ':'."""
    return [x.strip() for x in line.split(":")]


def parse_file(text, kind):
    """kind 2 or 3.  Returns dict with header, first, second, third, info."""
    lines = text.split("\n")
    hdr = lines[0].split()
    want = 2 if kind == 2 else 3
    if len(hdr) != want:
        raise Bad("header has %d numbers, expected %d" % (len(hdr), want))
    hdr = [int(x) for x in hdr]
    n1, n2 = hdr[0], hdr[1]
    n3 = hdr[2] if kind == 3 else None
    pos = 1
    first = []
    for i in range(1, n1 + 1):
        f = split_fields(lines[pos])
        pos += 1
        if len(f) != 2 or int(f[0]) != i:
            raise Bad("first-side line %d malformed: %r" % (i, lines[pos - 1]))
        first.append(parse_pref_tokens(f[1].split()))
    second = []
    for j in range(1, n2 + 1):
        f = split_fields(lines[pos])
        pos += 1
        if kind == 2:
            if len(f) != 4 or int(f[0]) != j:
                raise Bad("second-side line %d malformed: %r" % (j, lines[pos - 1]))
            second.append({"lq": int(f[1]), "uq": int(f[2]),
                           "prefs": parse_pref_tokens(f[3].split()),
                           "raw": f[3]})
        else:
            if len(f) != 4 or int(f[0]) != j:
                raise Bad("project line %d malformed: %r" % (j, lines[pos - 1]))
            second.append({"lq": int(f[1]), "uq": int(f[2]), "lect": int(f[3])})
    third = []
    if kind == 3:
        for k in range(1, n3 + 1):
            f = split_fields(lines[pos])
            pos += 1
            if len(f) != 5 or int(f[0]) != k:
                raise Bad("lecturer line %d malformed: %r" % (k, lines[pos - 1]))
            third.append({"lq": int(f[1]), "t": int(f[2]), "uq": int(f[3]),
                          "prefs": parse_pref_tokens(f[4].split()), "raw": f[4]})
    if pos >= len(lines) or lines[pos] != "":
        raise Bad("no blank line before the parameter block")
    info = [l for l in lines[pos + 1:] if l != ""]
    return {"n1": n1, "n2": n2, "n3": n3, "first": first, "second": second,
            "third": third, "info": info}


def even(n, total):
    q, r = divmod(int(total), n)
    return [q + 1 if i < r else q for i in range(n)]


def flat(groups):
    return [x for g in groups for x in g]


def check_ties(groups, t):
    n = len(flat(groups))
    if t == 0 and any(len(g) > 1 for g in groups):
        return "ties-with-probability-0"
    if t == 1 and n >= 2 and len(groups) != 1:
        return "not-fully-tied-with-probability-1"
    return None


def check_file(text, a):
    """a: dict of the arguments (mp,n1,n2,n3,pmin,pmax,t1,t2,lq,uq,llq,lt,luq,
    skew,twopl).  Returns list of defect strings (empty = well-formed)."""
    kind = 3 if a["mp"] == "spa" else 2
    try:
        f = parse_file(text, kind)
    except (Bad, ValueError, IndexError) as e:
        return ["unparseable:%s" % type(e).__name__], None
    out = []
    n1, n2 = a["n1"], a["n2"]
    if (f["n1"], f["n2"]) != (n1, n2) or (kind == 3 and f["n3"] != a["n3"]):
        out.append("header-counts")
        return out, f
    for groups in f["first"]:
        ids = flat(groups)
        if not (a["pmin"] <= len(ids) <= a["pmax"]):
            out.append("first-side-length-out-of-range")
        if len(set(ids)) != len(ids):
            out.append("first-side-duplicate-entry")
        if any(not (1 <= x <= n2) for x in ids):
            out.append("first-side-id-out-of-range")
        e = check_ties(groups, a["t1"])
        if e:
            out.append("first-side-" + e)
    lqs = [s["lq"] for s in f["second"]]
    uqs = [s["uq"] for s in f["second"]]
    if lqs != even(n2, a["lq"]):
        out.append("second-side-lower-quotas-not-even-spread")
    if uqs != even(n2, a["uq"]):
        out.append("second-side-upper-quotas-not-even-spread")
    if any(l > u for l, u in zip(lqs, uqs)):
        out.append("lower-above-upper")
    two = a["twopl"]
    if kind == 2:
        lists = [s["prefs"] for s in f["second"]]
        raws = [s["raw"] for s in f["second"]]
    else:
        lists = [s["prefs"] for s in f["third"]]
        raws = [s["raw"] for s in f["third"]]
        counts = [sum(1 for s in f["second"] if s["lect"] == k)
                  for k in range(1, a["n3"] + 1)]
        if any(not (1 <= s["lect"] <= a["n3"]) for s in f["second"]):
            out.append("project-lecturer-out-of-range")
        elif counts != even(a["n3"], n2):
            out.append("projects-per-lecturer-not-even-spread")
        if [s["lq"] for s in f["third"]] != even(a["n3"], a["llq"]):
            out.append("lecturer-lower-quotas-not-even-spread")
        if [s["t"] for s in f["third"]] != even(a["n3"], a["lt"]):
            out.append("lecturer-targets-not-even-spread")
        if [s["uq"] for s in f["third"]] != even(a["n3"], a["luq"]):
            out.append("lecturer-upper-quotas-not-even-spread")
        if any(not (s["lq"] <= s["t"] <= s["uq"]) for s in f["third"]):
            out.append("lecturer-lq-target-uq-order")
    if not two:
        if any(r != "" for r in raws):
            out.append("second-side-lists-present-in-one-sided-instance")
    else:
        for groups in lists:
            ids = flat(groups)
            if len(set(ids)) != len(ids):
                out.append("second-side-duplicate-entry")
            if any(not (1 <= x <= n1) for x in ids):
                out.append("second-side-id-out-of-range")
            e = check_ties(groups, a["t2"])
            if e:
                out.append("second-side-" + e)
    # parameter block: the sequence of values equals the arguments
    if not f["info"]:
        out.append("parameter-block-missing")
    else:
        vals = []
        for line in f["info"][1:]:
            if ": " in line:
                vals.append(line.split(": ", 1)[1])
        want = [n1, n2] + ([a["n3"]] if kind == 3 else []) + \
            [a["pmin"], a["pmax"], a["t1"], a["t2"], a["lq"], a["uq"], a["skew"]] + \
            ([a["llq"], a["lt"], a["luq"]] if kind == 3 else [])
        try:
            got = [float(v) for v in vals]
            if got != [float(w) for w in want]:
                out.append("parameter-block-values")
        except ValueError:
            out.append("parameter-block-values")
    return sorted(set(out)), f


def check_second_side(f, a):
    """C12: second-side lists rank exactly the acceptable agents, once."""
    out = []
    kind = 3 if a["mp"] == "spa" else 2
    if kind == 2:
        for j, s in enumerate(f["second"]):
            want = sorted(i + 1 for i, g in enumerate(f["first"]) if (j + 1) in flat(g))
            got = flat(s["prefs"])
            if len(got) != len(set(got)):
                out.append("second-side-duplicate")
            if sorted(set(got)) != want:
                out.append("second-side-missing-acceptable-agent" if set(want) - set(got)
                           else "second-side-unacceptable-agent")
    else:
        lect = [s["lect"] for s in f["second"]]
        for k, s in enumerate(f["third"]):
            want = sorted(i + 1 for i, g in enumerate(f["first"])
                          if any(lect[p - 1] == k + 1 for p in flat(g)))
            got = flat(s["prefs"])
            if len(got) != len(set(got)):
                out.append("lecturer-list-duplicate")
            if sorted(set(got)) != want:
                out.append("lecturer-list-missing-acceptable-student" if set(want) - set(got)
                           else "lecturer-list-unacceptable-student")
    return sorted(set(out))
