"""Generic LP-mode sweep: for every (instance, option vector) explore every
optimal class the back end may return, hand the complete set of executions of
the item to a property-specific judge, and (for a seed-chosen slice) re-run
the item against the real CBC to keep the environment model bound to it."""
from __future__ import annotations

import hashlib
import time

from . import fakecbc, lpcheck, lprun, ref
from . import instances as I
from .explore import HarnessError


class Ctx:
    __slots__ = ("inst", "twopl", "pc", "stab", "crits", "tail", "text",
                 "positions", "time_limit", "partial")

    def __init__(self):
        # partial = True: only some of the optimal classes were explored, so
        # "every feasible point is returnable" style oracles must not be applied
        self.partial = False

    def describe(self):
        return {"instance": I.to_json(self.inst), "file": self.text,
                "argv": self.tail, "twopl": self.twopl, "pc": self.pc,
                "stab": self.stab, "crits": [list(c) for c in self.crits]}


class Exec:
    __slots__ = ("choices", "obs", "short", "long", "short_text", "long_text",
                 "debug_text")


def _h(seed, *parts):
    m = hashlib.blake2b(digest_size=8)
    m.update(repr((seed,) + parts).encode())
    return int.from_bytes(m.digest(), "big")


def make_work(judge, *, getters=("short", "long"), conform_rate=0,
              seed=0, max_execs=20000, render_kw=None):
    """Return work(item, tally) for pool.run.
    item = (inst, [ (twopl, pc, stab, crits[, positions]) ... ])."""

    sentinel = {}

    def run_texts(text, tail):
        """All result texts of one item over all optimal classes (masked)."""
        out = []
        from .pool import Tally
        for choices, obs in lpcheck.explore_item(text, tail, Tally(), getters=getters,
                                                 max_execs=max_execs):
            obs["solver"] = None
            out.append(tuple((name, lprun.mask_times(v) if isinstance(v, str) else
                              (v or {}).get("fingerprint") if isinstance(v, dict) else None)
                             for name, v in obs["outputs"]))
        return out

    def sentinel_recheck(tally, last_ctx):
        """Differential oracle from a non-initial process state: the first item
        this worker processed is re-run and must give exactly the texts it gave
        the first time (state leaking between instances in one process)."""
        if not sentinel:
            return
        again = run_texts(sentinel["text"], sentinel["tail"])
        tally.inc("sentinel_rechecks")
        if again != sentinel["texts"]:
            v = dict(sentinel["describe"])
            v["fingerprint"] = "result-depends-on-earlier-instances-in-the-process"
            v["what"] = ("re-running the first item of this worker after other items gives "
                         "different result texts; last item before the re-run: %r %r" % (
                             last_ctx.tail, last_ctx.text))
            v["history_last_item"] = last_ctx.describe()
            tally.violation(v)

    counter = [0]

    def work(item, tally):
        inst, optlist = item
        text = I.render(inst, **(render_kw or {}))
        tally.inc("instances")
        for opt in optlist:
            ctx = Ctx()
            ctx.inst = inst
            ctx.twopl, ctx.pc, ctx.stab, ctx.crits = opt[:4]
            ctx.positions = opt[4] if len(opt) > 4 else None
            ctx.time_limit = None
            ctx.text = text
            ctx.tail = lpcheck.tail_for(inst, ctx.pc, ctx.stab, ctx.crits,
                                        twopl=ctx.twopl,
                                        positions=ctx.positions)
            execs = []
            for choices, obs in lpcheck.explore_item(
                    text, ctx.tail, tally, getters=getters,
                    max_execs=max_execs):
                e = Exec()
                e.choices = choices
                e.obs = obs
                st = lpcheck.get_output(obs, "short")
                lg = lpcheck.get_output(obs, "long")
                db = lpcheck.get_output(obs, "debug")
                e.short_text = st if isinstance(st, str) else None
                e.long_text = lg if isinstance(lg, str) else None
                e.debug_text = db if isinstance(db, str) else None
                e.short = lprun.parse_results(st) if isinstance(st, str) else None
                e.long = lprun.parse_results(lg) if isinstance(lg, str) else None
                if execs:
                    execs[-1].obs["solver"] = None
                execs.append(e)
            tally.inc("items")
            judge(ctx, execs, tally)
            counter[0] += 1
            if not sentinel:
                sentinel.update(text=text, tail=list(ctx.tail), describe=ctx.describe(),
                                texts=run_texts(text, ctx.tail))
            elif counter[0] % 150 == 0:
                sentinel_recheck(tally, ctx)
            if conform_rate and _h(seed, text, tuple(ctx.tail)) % conform_rate == 0:
                conform(ctx, execs, tally)
            if execs:
                execs[-1].obs["solver"] = None

    return work


def real_backend_wrong(ctx, tally, why):
    """A conformance disagreement: decide WHO is wrong.  The item is re-run in
    shadow mode (the real cbc answers, every answer is audited by substituting
    it into the rows and bounds of the MPS file and by comparing its objective
    with the exact enumeration).  If the real back end returned an infeasible
    point under 'Optimal', a sub-optimal value, or 'Infeasible' although a
    checked witness exists, the disagreement is the real CBC's defect (recorded
    in the evidence, with the instance); the environment model stays bound.
    Anything else is a harness error."""
    lprun.run_solver(ctx.text, ctx.tail, None, real="shadow", getters=("short",))
    lprun.wipe_tmpfiles()
    verdicts = list(fakecbc.SHADOW)
    fakecbc.install()
    if any(v.startswith("MODEL-WRONG") for v in verdicts) or \
            not any(v.startswith("real-wrong") for v in verdicts):
        raise HarnessError("conformance: %s; audit of the real answers: %r; %r\n%s"
                           % (why, verdicts, ctx.tail, ctx.text))
    tally.inc("real_cbc_wrong_answers")
    tally.add("real_cbc_wrong", (ctx.text, " ".join(ctx.tail),
                                 next(v for v in verdicts if v.startswith("real-wrong"))), cap=50)


def conform(ctx, execs, tally):
    """Re-run the item with the real CBC 2.10.3 and the real clock.  A
    disagreement means the environment model is wrong (harness error) - unless
    the audit shows that the real back end's answer is itself wrong."""
    real = lprun.run_solver(ctx.text, ctx.tail, None, real=True,
                            getters=("short",))
    lprun.wipe_tmpfiles()
    tally.inc("conformance_runs")
    fake0 = execs[0]
    rexc = real["exc"]["fingerprint"] if real["exc"] else None
    # exceptions in getters can depend on the class; compare solve-stage only
    fexcs = {(e.obs["exc"] or {}).get("fingerprint") for e in execs}
    rtext = lpcheck.get_output(real, "short")
    if rexc is not None or not isinstance(rtext, str):
        if rexc not in fexcs:
            return real_backend_wrong(ctx, tally, "real run raised %r, model %r" % (rexc, fexcs))
        tally.inc("traces_validated")
        return
    rd = lprun.parse_results(rtext)
    statuses = {(e.short or {}).get("pulp_status") for e in execs if e.short}
    if rd.get("pulp_status") not in statuses:
        return real_backend_wrong(ctx, tally, "real status %r, model %r" % (
            rd.get("pulp_status"), statuses))
    junk = any(str(x.get("answer", "")).startswith(("Infeasible", "reject", "fault"))
               for x in (fake0.obs["solves"] or []))
    if "matching" in rd and not junk:
        # (when a solve ended without optimum the values the back end leaves
        # behind are unspecified, so a text printed from them is not compared)
        want = lprun.mask_times(rtext)
        texts = {lprun.mask_times(e.short_text) for e in execs if e.short_text}
        if want not in texts:
            return real_backend_wrong(
                ctx, tally, "real CBC result not among the %d explored leaves:\n%s" % (
                    len(texts), rtext))
    tally.inc("traces_validated")


def replay_item(payload, getters=("short", "long")):
    """Re-execute one recorded (instance, argv, choices) without the explorer."""
    from .explore import Env
    text = payload["file"]
    tail = payload["argv"]
    choices = payload.get("choices") or []
    try:
        obs = lprun.run_solver(text, tail, Env(choices), getters=getters)
        if not obs.get("aux_reads"):
            return obs
    except HarnessError:
        pass
    # the exploration had switched to "every optimal full point is a class"
    # (a getter read an auxiliary variable): replay in the same mode
    return lprun.run_solver(text, tail, Env(choices), getters=getters,
                            observe_all=True)


LP_ASSUMPTIONS = [
    "bounded to the listed instance families (<=3 students, <=3 projects, <=3 lecturers, small quotas); every family is enumerated completely",
    "MILP back end modelled by FakeCBC: exact integer enumeration of the MPS file PuLP wrote, every optimal solution class answered in turn at the last solve; bound to CBC 2.10.3 by the conformance runs (traces_validated_against_impl); solutions within CBC's integrality tolerance but not exactly integral are outside the alphabet",
    "intermediate solves are not branched: the library reads only the objective variable between solves (certified at run time by the varValue read log; failures are counted and switch the reduction off)",
    "reference = enumeration of all assignments students -> listed project or none (vf/ref.py), independent of the library",
]


def interleave_items(tier, optlist, same_option_pairs=True):
    """Items (instA, optA, instB, optB) for vf.interleave.work_lp."""
    insts = []
    for ns, np_, nl, sp, le, lp in I.Q_STRUCTS:
        for name, pq, lq3 in I.quota_profiles3(ns, np_, nl, le):
            if name in ("unit", "p1lq1", "leclq1", "cap2") or tier == "thorough":
                insts.append(I.make3(ns, np_, nl, sp, le, lp, pq, lq3))
    for x in I.family_HR(True, sizes=[(2, 2)]):
        if x.pq in (((0, 1), (0, 1)), ((1, 1), (0, 1))) and \
                all(len(s) == 2 for s in x.sprefs) and \
                all(len(g) == 1 for s in x.sprefs for g in s) and \
                all(len(g) == 1 for s in x.lprefs for g in s):
            insts.append(x)
    items = []
    for inst in insts:
        for a in optlist:
            for b in optlist:
                if a != b:
                    items.append((inst, a, inst, b))
    if same_option_pairs:
        for i, inst in enumerate(insts):
            other = insts[(i + 1) % len(insts)]
            if other.kind == inst.kind:
                for a in optlist[:4]:
                    items.append((inst, a, other, a))
    return items


def run_lp_check(pid, level, tier, judge, rule, *, getters=("short", "long"),
                 conform_rate=None, extra=None, vacuity=None, chunksize=1,
                 interleave_opts=None, extra_work=None):
    """Shared main() of the LP-mode checks."""
    from . import evidence, pool
    from .families import lp_items
    t0 = time.time()
    seed = evidence.seed()
    items, desc = lp_items(pid, tier, seed)
    if conform_rate is None:
        conform_rate = 97 if tier == "quick" else 41
    work = make_work(judge, conform_rate=conform_rate, seed=seed,
                     getters=getters)
    tally = pool.run(work, items, chunksize=chunksize)
    if interleave_opts:
        from . import interleave
        it = interleave_items(tier, interleave_opts)
        tally.merge(pool.run(interleave.work_lp(judge, pid), it, chunksize=8))
        desc.append({"family": "two Solver objects alive at once (both constructed, then solved "
                               "in either order): %d option vectors, all ordered pairs on each of "
                               "the small instances" % len(interleave_opts), "items": len(it)})
    if extra_work:
        wfn, witems, wdesc = extra_work
        witems = list(witems)
        tally.merge(pool.run(wfn, witems, chunksize=4))
        desc.append({"family": wdesc, "items": len(witems)})
    c = tally.c
    coverage = {
        "states": c.get("executions", 0),
        "transitions": c.get("answers", 0),
        "traces_validated_against_impl": c.get("traces_validated", 0),
        "samples": tally.samples,
        "exhaustive": not c.get("items_capped") and not c.get("deadline_hit"),
        "evaluations": c.get("executions", 0),
        "distinct_nontrivial": c.get("nontrivial", 0),
        "rule": rule,
        "instances": c.get("instances", 0),
        "items_instance_x_options": c.get("items", 0),
        "max_fanout_optimal_classes": c.get("max_fanout", 0),
        "read_certificate_failed_items": c.get("read_certificate_failed_items", 0),
        "projection_certificate_failed_items": c.get("projection_certificate_failed_items", 0),
        "solves_delegated_to_real_cbc_not_enumerated": c.get("solves_delegated_to_real_cbc", 0),
        "conformance_runs_real_cbc": c.get("conformance_runs", 0),
        "real_cbc_answers_proved_wrong_by_audit": c.get("real_cbc_wrong_answers", 0),
        "real_cbc_wrong_answer_cases": [list(x) for x in
                                        sorted(tally.sets.get("real_cbc_wrong", ()))[:5]],
        "sentinel_rechecks_from_non_initial_process_state": c.get("sentinel_rechecks", 0),
        "interleaved_two_solver_histories": c.get("interleaved_histories", 0),
        "families": desc,
    }
    if extra:
        coverage.update(extra(tally))
    if vacuity:
        msg = vacuity(tally)
        if msg:
            tally.harness_errors.append("vacuous: " + msg)
    return evidence.conclude(pid, tier, level, tally, coverage,
                             LP_ASSUMPTIONS, t0)


def reported(e, which="short"):
    """(matching tuple or None, parsed dict) of an execution."""
    d = e.short if which == "short" else e.long
    if d is None or d.get("pulp_status") != "Optimal" or "matching" not in d:
        return None, d
    return tuple(d["matching"]), d


def replay_special(p):
    """Replays that need a process history: two Solvers alive at once, or a
    re-run of an item after another item.  Returns None when `p` is an
    ordinary single-item payload, else True (reproduced) / False."""
    from . import interleave
    if "interleaved_with" in p and isinstance(p["interleaved_with"], dict):
        o = p["interleaved_with"]
        specs = [(p["file"], p["argv"], ("short", "long")),
                 (o["file"], o["argv"], ("short", "long"))]
        from .explore import Env
        obs = lprun.run_interleaved(specs, p.get("order", [0, 1]), Env([]))
        alone = lprun.run_solver(p["file"], p["argv"], Env([]))
        a = [lprun.mask_times(v) if isinstance(v, str) else v for _, v in obs[0]["outputs"]]
        b = [lprun.mask_times(v) if isinstance(v, str) else v for _, v in alone["outputs"]]
        print("--- this Solver's outputs with the other Solver alive:")
        for x in a:
            print(x)
        print("--- the same Solver alone:")
        for x in b:
            print(x)
        return a != b
    if "history_last_item" in p:
        from .explore import Env
        o = p["history_last_item"]
        first = lprun.run_solver(p["file"], p["argv"], Env([]))
        lprun.run_solver(o["file"], o["argv"], Env([]))
        again = lprun.run_solver(p["file"], p["argv"], Env([]))
        a = [lprun.mask_times(v) if isinstance(v, str) else v for _, v in first["outputs"]]
        b = [lprun.mask_times(v) if isinstance(v, str) else v for _, v in again["outputs"]]
        print("--- first run:")
        for x in a:
            print(x)
        print("--- re-run after %r:" % (o["argv"],))
        for x in b:
            print(x)
        return a != b
    return None


def generic_replay(path, bad_fn=None):
    import json
    with open(path) as f:
        p = json.load(f)
    sp = replay_special(p)
    if sp is not None:
        print("recorded:", p.get("what"))
        print("REPRODUCED" if sp else "NOT REPRODUCED (the violation depends on a longer process "
              "history than the replay file records; re-run the check)")
        raise SystemExit(1 if sp else 0)
    obs = replay_item(p)
    print("argv:", p["argv"])
    print(p["file"])
    print("choices:", p.get("choices"))
    print("recorded:", p.get("what"))
    print("exc:", obs["exc"])
    for name, val in obs["outputs"]:
        if isinstance(val, str):
            print("--- %s\n%s" % (name, val))
    return p, obs
