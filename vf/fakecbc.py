"""E2 - FakeCBC: the MILP back end as an owned environment.

Reads the MPS file PuLP wrote (PuLP's fixed dialect), enumerates the integer
points explicitly (DFS + interval propagation; no LP/SMT solver involved),
and writes a CBC-syntax solution file that the unmodified PuLP then parses.

The only thing replaced in PuLP is the name `pulp.apis.coin_api.subprocess`.
"""
from __future__ import annotations

import hashlib
import math
import os
from types import SimpleNamespace

from .explore import HarnessError

INF = 10 ** 12


class MPSReject(Exception):
    """The real CBC would refuse this file (no solution file is written)."""


class NeedsRealCBC(Exception):
    """The model has continuous columns with a range: its answers cannot be
    enumerated; the solve is delegated to the real CBC (one answer only)."""


class Problem:
    __slots__ = ("ncols", "colnames", "rows", "rownames", "obj", "lo", "hi",
                 "isint", "col_rows", "text_hash", "obj_scale")


from fractions import Fraction


def _num(tok):
    """Exact rational value of an MPS number (12 significant digits)."""
    f = float(tok)
    i = int(round(f))
    if abs(f - i) <= 1e-9:
        return i
    return Fraction(f).limit_denominator(10 ** 6)


def _lcd(values):
    d = 1
    for v in values:
        if isinstance(v, Fraction):
            d = d * v.denominator // math.gcd(d, v.denominator)
    return d


def parse_mps(text):
    rows = {}          # name -> [sense, rhs, {col: coef}]
    roworder = []
    objname = None
    cols = {}          # name -> index
    colorder = []
    isint = {}
    obj = {}
    lo = {}
    hi = {}
    section = None
    in_int = False
    last_col = None
    closed_cols = set()
    for line in text.split("\n"):
        if not line or line[0] == "*":
            continue
        if line[0] != " ":
            section = line.split()[0]
            continue
        t = line.split()
        if section == "ROWS":
            if t[0] == "N":
                objname = t[1]
            else:
                rows[t[1]] = [t[0], 0, {}]
                roworder.append(t[1])
        elif section == "COLUMNS":
            if t[0] == "MARK":
                in_int = (t[2] == "'INTORG'")
                continue
            c = t[0]
            if c != last_col:
                if c in closed_cols or c in cols:
                    # CBC: "Duplicate column" -> model not valid
                    raise MPSReject("duplicate column %s" % c)
                if last_col is not None:
                    closed_cols.add(last_col)
                cols[c] = len(colorder)
                colorder.append(c)
                isint[c] = in_int
                last_col = c
            for r, v in zip(t[1::2], t[2::2]):
                v = _num(v)
                if r == objname:
                    obj[cols[c]] = obj.get(cols[c], 0) + v
                else:
                    if r not in rows:
                        raise MPSReject("no match for row %s" % r)
                    d = rows[r][2]
                    if cols[c] in d:
                        raise MPSReject("duplicate row %s in column %s" % (r, c))
                    d[cols[c]] = v
        elif section == "RHS":
            for r, v in zip(t[1::2], t[2::2]):
                if r == objname:
                    continue
                rows[r][1] = _num(v)
        elif section == "BOUNDS":
            kind, c = t[0], t[2]
            if c not in cols:
                raise MPSReject("no match for column %s" % c)
            if kind == "BV":
                lo[c], hi[c] = 0, 1
                isint[c] = True
            elif kind == "FX":
                f = float(t[3])
                lo[c] = hi[c] = f
            elif kind == "LO":
                lo[c] = float(t[3])
            elif kind == "UP":
                hi[c] = float(t[3])
                if hi[c] < 0 and c not in lo:
                    lo[c] = -INF
            elif kind == "MI":
                lo[c] = -INF
            elif kind == "FR":
                lo[c], hi[c] = -INF, INF
            else:
                raise HarnessError("FakeCBC: bound kind %s" % kind)
        elif section in ("NAME", "ENDATA", "OBJSENSE"):
            pass
        else:
            raise HarnessError("FakeCBC: unknown section %r" % section)
    p = Problem()
    p.ncols = len(colorder)
    p.colnames = colorder
    p.rownames = roworder
    p.lo = []
    p.hi = []
    p.isint = []
    for c in colorder:
        l = lo.get(c, 0)
        h = hi.get(c, INF)
        if isint[c]:
            l = -INF if l <= -INF else int(math.ceil(l - 1e-9))
            h = INF if h >= INF else int(math.floor(h + 1e-9))
        else:
            if l != h:
                raise NeedsRealCBC("continuous column %s with range [%r,%r]" % (c, l, h))
            if abs(l - round(l)) > 1e-9:
                raise NeedsRealCBC("fractional fixed column %s" % c)
            l = h = int(round(l))
        if l > h:
            # CBC: "MODEL read with 1 errors ... Current model not valid"
            raise MPSReject("column %s lower bound above upper bound" % c)
        p.lo.append(l)
        p.hi.append(h)
        p.isint.append(isint[c])
    p.rows = []
    for r in roworder:
        sense, rhs, d = rows[r]
        items = sorted(d.items())
        # scale the row to integer coefficients; a fractional right-hand side
        # over integer columns is then tightened exactly
        m = _lcd([v for _, v in items])
        coefs = [int(v * m) for _, v in items]
        rhs = rhs * m
        if isinstance(rhs, Fraction) and rhs.denominator != 1:
            if sense == "L":
                rhs = math.floor(rhs)
            elif sense == "G":
                rhs = math.ceil(rhs)
            else:
                sense, rhs = "X", 0      # equality with fractional rhs: impossible
        rhs = int(rhs)
        p.rows.append((sense, rhs, tuple(c for c, _ in items), tuple(coefs)))
    m = _lcd(list(obj.values()))
    p.obj = {c: int(v * m) for c, v in obj.items()}
    p.obj_scale = m
    p.col_rows = [[] for _ in range(p.ncols)]
    for ri, (_, _, cs, _) in enumerate(p.rows):
        for c in cs:
            p.col_rows[c].append(ri)
    return p


def _floordiv(a, b):
    return a // b


def _ceildiv(a, b):
    return -((-a) // b)


def propagate(p, lo, hi, dirty):
    """Interval propagation to fix-point.  lo/hi are mutated.  Returns False
    when some row cannot be satisfied inside the bounds (sound: only then)."""
    rows = p.rows
    col_rows = p.col_rows
    queue = list(dirty)
    inq = set(queue)
    while queue:
        ri = queue.pop()
        inq.discard(ri)
        sense, rhs, cs, vs = rows[ri]
        mn = 0
        mx = 0
        for c, a in zip(cs, vs):
            if a > 0:
                mn += a * lo[c]
                mx += a * hi[c]
            else:
                mn += a * hi[c]
                mx += a * lo[c]
        if sense == "X":                   # equality with fractional rhs
            return False
        if sense != "G" and mn > rhs:      # L or E: sum <= rhs
            return False
        if sense != "L" and mx < rhs:      # G or E: sum >= rhs
            return False
        for c, a in zip(cs, vs):
            l, h = lo[c], hi[c]
            if l == h:
                continue
            nl, nh = l, h
            if sense != "G":
                # a*x <= rhs - (mn - contribution_min(x))
                if a > 0:
                    slack = rhs - (mn - a * l)
                    nh = min(nh, _floordiv(slack, a))
                else:
                    slack = rhs - (mn - a * h)
                    nl = max(nl, _ceildiv(slack, a))
            if sense != "L":
                # a*x >= rhs - (mx - contribution_max(x))
                if a > 0:
                    need = rhs - (mx - a * h)
                    nl = max(nl, _ceildiv(need, a))
                else:
                    need = rhs - (mx - a * l)
                    nh = min(nh, _floordiv(need, a))
            if nl > nh:
                return False
            if nl != l or nh != h:
                # keep mn/mx in step with the tightened bounds
                if a > 0:
                    mn += a * (nl - l)
                    mx += a * (nh - h)
                else:
                    mn += a * (nh - h)
                    mx += a * (nl - l)
                lo[c], hi[c] = nl, nh
                for r2 in col_rows[c]:
                    if r2 not in inq:
                        inq.add(r2)
                        queue.append(r2)
    return True


class Result:
    __slots__ = ("status", "optimum", "classes", "nodes", "feasible_observed",
                 "obj_cols")


def _objective_bound(obj_items, lo, hi, sign):
    """Optimistic (best possible) value of sign*objective inside the bounds."""
    b = 0
    for c, a in obj_items:
        a *= sign
        b += a * (hi[c] if a > 0 else lo[c])
    return b


def enumerate_ilp(p, observed, maximize, node_cap=5_000_000, gap=0):
    """Return Result with all optimal classes (projection on `observed`).
    gap > 0 (scaled objective units): the back end was told it may stop within
    `gap` of the optimum, so every feasible class within the gap is an answer
    it is entitled to give."""
    sign = 1 if maximize else -1      # maximise sign*objective
    obj_items = sorted(p.obj.items())
    obj_cols = [c for c, a in obj_items if a != 0]
    lo0 = list(p.lo)
    hi0 = list(p.hi)
    res = Result()
    res.nodes = 0
    res.feasible_observed = 0
    res.obj_cols = obj_cols
    res.classes = []
    res.optimum = None
    if not propagate(p, lo0, hi0, range(len(p.rows))):
        res.status = "Infeasible"
        return res
    observed = list(observed)
    obs_set = set(observed)
    aux = [c for c in range(p.ncols) if c not in obs_set]
    # objective columns first among aux
    aux.sort(key=lambda c: (0 if c in p.obj and p.obj[c] != 0 else 1, c))
    best = [None]           # best sign*objective found so far
    classes = []            # (value, full vector)

    def aux_search(lo, hi, k, incumbent):
        """Best completion over aux[k:] whose value is strictly better than
        `incumbent` (any feasible completion when incumbent is None);
        returns (value, vector) or None."""
        res.nodes += 1
        if res.nodes > node_cap:
            raise HarnessError("FakeCBC: node cap hit")
        while k < len(aux) and lo[aux[k]] == hi[aux[k]]:
            k += 1
        if k == len(aux):
            val = 0
            for c, a in obj_items:
                val += sign * a * lo[c]
            if incumbent is not None and val <= incumbent:
                return None
            return val, list(lo)
        c = aux[k]
        l, h = lo[c], hi[c]
        a = sign * p.obj.get(c, 0)
        if h - l > 100000:
            # a column left (half-)unbounded, e.g. an objective variable whose
            # bound was removed: search a window starting at the end that the
            # objective prefers (or the finite end / zero for a neutral column)
            if a > 0 and h < INF:
                l = h - 3000
            elif a < 0 and l > -INF:
                h = l + 3000
            elif a == 0 and l > -INF:
                h = l + 2000
            elif a == 0 and h < INF:
                l = h - 2000
            else:
                raise HarnessError("FakeCBC: column %s unbounded in the direction the "
                                   "objective prefers" % p.colnames[c])
        order = range(h, l - 1, -1) if a > 0 else range(l, h + 1)
        found = None
        cur = incumbent
        for v in order:
            lo2 = list(lo)
            hi2 = list(hi)
            lo2[c] = hi2[c] = v
            if not propagate(p, lo2, hi2, p.col_rows[c]):
                continue
            if cur is not None:
                ub = _objective_bound(obj_items, lo2, hi2, sign)
                if ub <= cur:
                    continue
            r = aux_search(lo2, hi2, k + 1, cur)
            if r is not None:
                found = r
                cur = r[0]
        return found

    def obs_search(lo, hi, k):
        res.nodes += 1
        if res.nodes > node_cap:
            raise HarnessError("FakeCBC: node cap hit")
        while k < len(observed) and lo[observed[k]] == hi[observed[k]]:
            k += 1
        if k == len(observed):
            if best[0] is not None:
                ub = _objective_bound(obj_items, lo, hi, sign)
                if ub < best[0] - gap:
                    # feasibility of this observed vector still matters for
                    # the count only; skip the count to keep pruning cheap
                    return
            r = aux_search(lo, hi, 0, None)
            if r is None:
                return
            res.feasible_observed += 1
            val, vec = r
            if best[0] is None or val > best[0]:
                best[0] = val
                if gap:
                    classes[:] = [c for c in classes if c[0] >= val - gap]
                else:
                    del classes[:]
            if val >= best[0] - gap:
                classes.append((val, vec))
            return
        c = observed[k]
        for v in range(lo[c], hi[c] + 1):
            lo2 = list(lo)
            hi2 = list(hi)
            lo2[c] = hi2[c] = v
            if not propagate(p, lo2, hi2, p.col_rows[c]):
                continue
            obs_search(lo2, hi2, k + 1)

    for c in observed:
        if hi0[c] - lo0[c] > 100000:
            raise HarnessError("FakeCBC: unbounded observed column")
    obs_search(lo0, hi0, 0)
    if best[0] is None:
        res.status = "Infeasible"
        return res
    res.status = "Optimal"
    res.optimum = sign * best[0] / getattr(p, "obj_scale", 1) \
        if getattr(p, "obj_scale", 1) != 1 else sign * best[0]
    # best classes first (class 0 is always a true optimum)
    classes.sort(key=lambda c: -c[0])
    res.classes = [c[1] for c in classes]
    return res


def check_point(p, vec):
    """Independent re-validation: substitute a point in rows and bounds."""
    bad = []
    for c in range(p.ncols):
        if not (p.lo[c] <= vec[c] <= p.hi[c]):
            bad.append("bound:" + p.colnames[c])
    for ri, (sense, rhs, cs, vs) in enumerate(p.rows):
        act = sum(a * vec[c] for c, a in zip(cs, vs))
        ok = (act <= rhs if sense == "L" else act >= rhs if sense == "G"
              else act == rhs if sense == "E" else False)
        if not ok:
            bad.append("row:" + p.rownames[ri])
    return bad


def write_sol(path, p, headline, vec, infeasible_marks=False):
    out = [headline + "\n"]
    for ri, (sense, rhs, cs, vs) in enumerate(p.rows):
        act = sum(a * vec[c] for c, a in zip(cs, vs))
        out.append("%7d %-8s %15s %23s\n" % (ri, p.rownames[ri], _fmt(act), "-0"))
    for c in range(p.ncols):
        out.append("%7d %-8s %15s %23s\n" % (c, p.colnames[c], _fmt(vec[c]), "0"))
    with open(path, "w") as f:
        f.writelines(out)


def _fmt(x):
    if isinstance(x, float) and x != int(x):
        return repr(x)
    return str(int(x))


# --------------------------------------------------------------------------
# the process seam
# --------------------------------------------------------------------------

class Context:
    """Per-execution state shared between the driver and FakeCBC."""

    def __init__(self):
        self.reset()

    def reset(self):
        self.env = None            # explore.Env
        self.solver_obj = None     # the matchingproblems Solver under test
        self.clock = None
        self.solves = []           # list of dict records
        self.fault_fn = None       # (k, result, timelimit) -> None | fault dict
        self.observed_fn = None    # () -> list of LpVariable objects
        self.memo_hits = 0
        self.last_problem = None
        self.last_text = None
        self.keep_mps = False
        self.read_log = None
        self.delegated = 0
        self.observe_all = False


CTX = Context()
_MEMO = {}
_MEMO_MAX = 20000


def solve_text(text, observed, maximize, gap_abs=0.0, gap_rel=0.0):
    key = (hashlib.blake2b(text.encode(), digest_size=16).digest(),
           tuple(observed), maximize, gap_abs, gap_rel)
    hit = _MEMO.get(key)
    if hit is not None:
        CTX.memo_hits += 1
        return hit
    try:
        p = parse_mps(text)
        gap = 0
        if gap_abs or gap_rel:
            # CBC stops when best - incumbent <= allowable gap; in scaled
            # integer objective units that admits every class within floor(gap)
            exact = enumerate_ilp(p, observed, maximize)
            g = gap_abs
            if gap_rel and exact.optimum is not None:
                g = max(g, gap_rel * abs(exact.optimum))
            gap = int(math.floor(g * getattr(p, "obj_scale", 1) + 1e-9))
        r = enumerate_ilp(p, observed, maximize, gap=gap)
        val = (p, r, None)
    except MPSReject as e:
        val = (None, None, str(e))
    except NeedsRealCBC as e:
        val = (None, None, "delegate:" + str(e))
    if len(_MEMO) >= _MEMO_MAX:
        _MEMO.clear()
    _MEMO[key] = val
    return val


def _observed_indices():
    S = CTX.solver_obj
    prob = S.solver.prob
    vs = prob._variables
    want = set()
    m = S.model
    for row in m.pairs:
        for pair in row:
            v = getattr(pair, "lp_var", None)
            if v is not None:
                want.add(id(v))
    for v in getattr(m, "project_closures", []) or []:
        want.add(id(v))
    if CTX.observe_all:
        # certificate failed (a getter read an auxiliary variable): every
        # optimal FULL point is a class of its own
        return list(range(len(vs))), vs
    return [i for i, v in enumerate(vs) if id(v) in want], vs


FAULT_HEADLINES = {
    "Infeasible": "Infeasible - objective value 0.00000000",
    "IntegerInfeasible": "Integer infeasible - objective value 0.00000000",
    "Unbounded": "Unbounded - objective value 0.00000000",
    "Undefined": "Status unknown - objective value 0.00000000",
    "NotSolved": "Stopped on time (no integer solution - continuous used) - objective value 0.00000000",
    "Incumbent": "Stopped on time - objective value 0.00000000",
}


def fake_cbc_main(args):
    """Emulates `cbc <mps> [-max] [-sec T] ... -solution <sol>`."""
    mps = args[1]
    maximize = "-max" in args
    sol = args[args.index("-solution") + 1]
    tl = None
    if "-sec" in args:
        tl = float(args[args.index("-sec") + 1])
    gap_abs = float(args[args.index("-allow") + 1]) if "-allow" in args else 0.0
    gap_rel = float(args[args.index("-ratio") + 1]) if "-ratio" in args else 0.0
    for opt in ("-maxN", "-maxNodes", "-maxSolutions", "-maxSol", "-maxSo"):
        if opt in args:
            # a node / solution limit: the back end may stop at ANY feasible point
            # (CBC then says "Stopped on nodes - objective value ...", which PuLP
            # reports as Optimal): every feasible class is an admissible answer
            gap_abs = float(INF)
    with open(mps) as f:
        text = f.read()
    k = len(CTX.solves)
    observed, vs = _observed_indices()
    p, r, reject = solve_text(text, observed, maximize, gap_abs, gap_rel)
    rec = {"k": k, "maximize": maximize, "timelimit": tl,
           "gap": (gap_abs, gap_rel) if (gap_abs or gap_rel) else None}
    CTX.solves.append(rec)
    CTX.last_text = text
    CTX.last_problem = p
    if CTX.read_log is not None:
        rec["reads_before"] = CTX.read_log.flush()
    if reject is not None and reject.startswith("delegate:"):
        # not enumerable: ask the real CBC (a single answer, no alternatives)
        import subprocess as _sp
        rec["answer"] = "delegated-to-real-cbc"
        CTX.delegated += 1
        with open(os.devnull, "w") as dn:
            rc = _REAL_SUBPROCESS.Popen(args, stdout=dn, stderr=dn,
                                        stdin=_sp.DEVNULL).wait()
        if CTX.clock is not None:
            CTX.clock.advance_us(1000)
        return rc
    if reject is not None:
        rec["answer"] = "reject:" + reject
        if CTX.clock is not None:
            CTX.clock.advance_us(1000)
        return 0            # no solution file -> PuLP raises PulpSolverError
    rec["ncols"] = p.ncols
    rec["nrows"] = len(p.rows)
    rec["true_status"] = r.status
    rec["optimum"] = r.optimum
    rec["nclasses"] = len(r.classes)
    rec["nodes"] = r.nodes
    rec["obj_names"] = [vs[c].name for c in r.obj_cols if c < len(vs)]
    rec["obj_ids"] = [id(vs[c]) for c in r.obj_cols if c < len(vs)]
    fault = None
    if CTX.fault_fn is not None:
        fault = CTX.fault_fn(k, r, tl)
    if fault is not None:
        kind = fault["kind"]
        rec["answer"] = "fault:" + kind
        vec = [0] * p.ncols
        values = fault.get("values", "zero")
        if kind == "Incumbent":
            # a feasible, not necessarily optimal point (only when feasible)
            pts = fault["point"]
            vec = pts
        elif values == "half":
            vec = [0.5 if (p.lo[c], p.hi[c]) == (0, 1) else p.lo[c]
                   for c in range(p.ncols)]
        elif values == "optimal" and r.classes:
            vec = r.classes[0]
        write_sol(sol, p, FAULT_HEADLINES[kind], vec)
        if CTX.clock is not None:
            if kind in ("Incumbent", "NotSolved") and tl is not None:
                CTX.clock.advance_us(int(tl * 1_000_000) + 1)
            else:
                CTX.clock.advance_us(1000)
        return 0
    if CTX.clock is not None:
        CTX.clock.advance_us(1000)
    if r.status == "Infeasible":
        rec["answer"] = "Infeasible"
        write_sol(sol, p, "Infeasible - objective value 0.00000000",
                  [0] * p.ncols)
        return 0
    n = len(r.classes)
    c = CTX.env.choose(n, "solve#%d" % k) if CTX.env is not None else 0
    rec["answer"] = "class:%d" % c
    rec["chosen"] = c
    vec = r.classes[c]
    rec["observed"] = [vec[i] for i in observed]
    write_sol(sol, p, "Optimal - objective value %.8f" % r.optimum, vec)
    return 0


class FakePopen:
    def __init__(self, args, **kw):
        self.args = args

    def wait(self):
        return fake_cbc_main(self.args)


_REAL_SUBPROCESS = None


def install():
    """Replace pulp.apis.coin_api.subprocess by the shim (idempotent)."""
    global _REAL_SUBPROCESS
    from pulp.apis import coin_api
    if _REAL_SUBPROCESS is None:
        _REAL_SUBPROCESS = coin_api.subprocess
    coin_api.subprocess = SimpleNamespace(Popen=FakePopen)


def uninstall():
    from pulp.apis import coin_api
    if _REAL_SUBPROCESS is not None:
        coin_api.subprocess = _REAL_SUBPROCESS


# --------------------------------------------------------------------------
# shadow mode: the REAL cbc answers, and every answer is audited against the
# exact enumeration of the same MPS file (used by the conformance diagnosis)
# --------------------------------------------------------------------------

SHADOW = []


class ShadowPopen:
    def __init__(self, args, **kw):
        self.args = args
        self.kw = kw

    def wait(self):
        import subprocess as _sp
        with open(os.devnull, "w") as dn:
            rc = _REAL_SUBPROCESS.Popen(self.args, stdout=dn, stderr=dn,
                                        stdin=_sp.DEVNULL).wait()
        try:
            SHADOW.append(audit_real_answer(self.args))
        except (HarnessError, MPSReject, NeedsRealCBC) as e:
            SHADOW.append("unaudited:%s" % type(e).__name__)
        return rc


def audit_real_answer(args):
    """Compare the real cbc's solution file with the exact enumeration."""
    mps = args[1]
    maximize = "-max" in args
    sol = args[args.index("-solution") + 1]
    with open(mps) as f:
        p = parse_mps(f.read())
    r = enumerate_ilp(p, [], maximize)
    if not os.path.exists(sol):
        return "real:no-solution-file"
    with open(sol) as f:
        lines = f.read().split("\n")
    word = lines[0].split()[0] if lines and lines[0].split() else "?"
    vals = {}
    for l in lines[1:]:
        t = l.split()
        if t and t[0] == "**":
            t = t[1:]
        if len(t) >= 3 and t[1].startswith("X"):
            vals[t[1]] = float(t[2])
    if word == "Optimal":
        vec = []
        for c in p.colnames:
            v = vals.get(c, 0.0)
            if abs(v - round(v)) > 1e-6:
                return "real:fractional-value-on-integer-column"
            vec.append(int(round(v)))
        bad = check_point(p, vec)
        if bad:
            return "real-wrong:optimal-status-with-infeasible-point(%s)" % ",".join(bad[:3])
        if r.status != "Optimal":
            return "MODEL-WRONG:real-has-a-feasible-point"
        sign = 1 if maximize else -1
        obj = sum(a * vec[c] for c, a in p.obj.items())
        best = r.optimum * getattr(p, "obj_scale", 1)
        if sign * obj < sign * best - 1e-9:
            return "real-wrong:suboptimal(%s vs %s)" % (obj, best)
        if sign * obj > sign * best + 1e-9:
            return "MODEL-WRONG:real-objective-better"
        return "agree"
    if word in ("Infeasible", "Integer"):
        if r.status == "Optimal":
            if check_point(p, r.classes[0]):
                return "MODEL-WRONG:witness-does-not-check"
            return "real-wrong:infeasible-status-but-witness-exists"
        return "agree"
    return "real:status-" + word


def install_shadow():
    global _REAL_SUBPROCESS
    from pulp.apis import coin_api
    if _REAL_SUBPROCESS is None:
        _REAL_SUBPROCESS = coin_api.subprocess
    del SHADOW[:]
    coin_api.subprocess = SimpleNamespace(Popen=ShadowPopen)
