"""C08 - generated files are well-formed instances of the requested type and
parameters, for every RNG answer sequence (C12 shares the exploration)."""
from __future__ import annotations

import hashlib
import json
import time

from .. import evidence, genfile, genvectors, pool, rngenv
from ..explore import HarnessError

PID = "C08"
LEVEL = "model_checking"
CAPS = {"quick": 12000, "thorough": 400000}
REAL_SEEDS = {"quick": 3, "thorough": 12}


def check_result(a, res, tally, choices, which):
    """Judge one execution.  which: 'C08' or 'C12'.  Returns parsed files."""
    base = {"args": a, "argv": genvectors.argv_of(a), "choices": choices}
    if res["exc"] is not None:
        if which == "C08":
            v = dict(base)
            v["fingerprint"] = "exc:" + res["exc"]["fingerprint"]
            v["what"] = "accepted argument vector, generator raised: %s %s" % (
                res["exc"]["fingerprint"], res["exc"].get("message"))
            tally.violation(v)
        return None
    files = res["files"] or {}
    want_names = ["%d.txt" % i for i in range(a.get("numinst", 1))]
    if which == "C08" and sorted(files) != sorted(want_names):
        v = dict(base)
        v["fingerprint"] = "file-set"
        v["what"] = "files written %r, expected %r" % (sorted(files), want_names)
        tally.violation(v)
    parsed = []
    for name in sorted(files):
        text = files[name]
        defects, f = genfile.check_file(text, a)
        if which == "C12":
            if f is None or not a["twopl"]:
                continue
            defects = genfile.check_second_side(f, a)
        if defects:
            v = dict(base)
            v["file"] = text
            v["fingerprint"] = ",".join(defects)
            v["what"] = "generated file %s is not as specified: %s" % (name, defects)
            tally.violation(v)
        parsed.append((text, f))
    return parsed


_SENT = {}


def sentinel_recheck(a_last, tally):
    """The first vector this worker ran (default RNG answers) is re-run after
    other vectors and must write exactly the same files (state leaking between
    generator runs in one process)."""
    from ..explore import Env
    if not _SENT:
        return
    res = rngenv.run_generator(_SENT["argv"], Env([]), tag="sentinel")
    tally.inc("sentinel_rechecks")
    if (res["files"], (res["exc"] or {}).get("fingerprint")) != _SENT["result"]:
        tally.violation({"args": _SENT["args"], "argv": _SENT["argv"], "choices": [],
                         "fingerprint": "output-depends-on-earlier-runs-in-the-process",
                         "what": "re-running %r after %r gives different files than the first time"
                                 % (_SENT["argv"], genvectors.argv_of(a_last))})


def work_rng(item, tally, which="C08"):
    from ..explore import Env
    a, cap, nseeds, seed0 = item
    argv = genvectors.argv_of(a)
    if not _SENT:
        r0 = rngenv.run_generator(argv, Env([]), tag="sentinel")
        _SENT.update(args=a, argv=argv,
                     result=(r0["files"], (r0["exc"] or {}).get("fingerprint")))
    n = 0
    texts = set()
    lengths = set()
    capped = False
    for choices, res in rngenv.explore_vector(argv, cap):
        n += 1
        if n > cap:
            capped = True
            break
        parsed = check_result(a, res, tally, choices, which)
        for text, f in parsed or []:
            texts.add(text)
            if f is not None:
                for g in f["first"]:
                    lengths.add(len(genfile.flat(g)))
    if capped:
        tally.inc("vectors_skipped_over_cap")
        tally.inc("executions_discarded", n)
        return
    tally.inc("vectors")
    tally.inc("executions", n)
    if a["skew"] != _SENT["args"]["skew"] or a["n2"] == _SENT["args"]["n2"] or \
            tally.c.get("vectors", 0) % 5 == 0:
        sentinel_recheck(a, tally)
    tally.inc("answers", sum(1 for _ in ()) or 0)
    tally.inc("distinct_files", len(texts))
    tally.mx("max_schedules_one_vector", n)
    if len(texts) > 1:
        tally.inc("nontrivial")
    if which == "C08":
        want = set(range(a["pmin"], a["pmax"] + 1))
        if texts and not want <= lengths:
            v = {"args": a, "argv": argv, "fingerprint": "length-unreachable",
                 "what": "list lengths %r never occur over all %d RNG answer sequences "
                         "(pmin=%d pmax=%d)" % (sorted(want - lengths), n, a["pmin"], a["pmax"])}
            tally.violation(v)
    # conformance: the real RNG must produce one of the explored files
    for s in range(nseeds):
        rs = (seed0 * 1000003 + s * 7919 + hash(tuple(argv)) % 100000) % (2 ** 31)
        real = rngenv.run_generator(argv, None, real_seed=rs)
        tally.inc("conformance_runs")
        if real["exc"] is not None:
            if texts:
                raise HarnessError("real RNG run raised %r but the model did not: %r"
                                   % (real["exc"], argv))
            tally.inc("traces_validated")
            continue
        for name, text in (real["files"] or {}).items():
            if text not in texts:
                raise HarnessError(
                    "RngEnv does not cover the real RNG: seed %d argv %r produced a file "
                    "outside the explored set:\n%s" % (rs, argv, text))
        tally.inc("traces_validated")
    if n and tally.c.get("vectors", 0) % 60 == 1 and texts:
        tally.sample({"argv": argv, "rng_answer_sequences": n,
                      "distinct_files": len(texts), "one_file": sorted(texts)[0]})


def work_quota(a, tally, which="C08"):
    argv = genvectors.argv_of(a)
    from ..explore import Env
    # default RNG answers plus two deviating answer sequences
    for choices in ([], [1], [0, 1, 1]):
        try:
            res = rngenv.run_generator(argv, Env(choices))
        except HarnessError:
            continue            # that deviation does not exist for this vector
        tally.inc("quota_vectors" if not choices else "quota_vector_deviations")
        tally.inc("executions")
        check_result(a, res, tally, choices, which)


def primitive_conformance(tally):
    """RngEnv primitives vs the real numpy/random on tiny domains: the set of
    outcomes over many real seeds equals the modelled set."""
    import random
    import numpy as np
    from ..explore import Env, explore
    cases = 0

    def model_set(fn):
        out = set()
        for ch, tr, r in explore(lambda env: fn(env), branch="all"):
            out.add(r)
        return out

    for n in (2, 3):
        m = model_set(lambda env: tuple(_shuf(rngenv.RandShim(env), n)))
        r = set()
        for s in range(400):
            random.seed(s)
            x = list(range(n))
            random.shuffle(x)
            r.add(tuple(x))
        if m != r:
            raise HarnessError("shuffle model %r real %r" % (m, r))
        cases += 1
    for n, k, p in ((3, 2, [0.2, 0.3, 0.5]), (3, 3, [0.2, 0.3, 0.5]), (2, 1, [0.5, 0.5]),
                    (3, 1, [0.0, 0.5, 0.5])):
        m = model_set(lambda env: tuple(int(x) for x in rngenv.NpShim(env).random.choice(
            np.arange(1, n + 1), k, replace=False, p=p)))
        r = set()
        for s in range(600):
            np.random.seed(s)
            r.add(tuple(int(x) for x in np.random.choice(np.arange(1, n + 1), k,
                                                         replace=False, p=p)))
        if m != r:
            raise HarnessError("choice model %r real %r" % (m, r))
        cases += 1
    for k, t in ((2, 0.5), (3, 0.5), (2, 0.0), (2, 1.0), (0, 0.5)):
        m = model_set(lambda env: tuple(int(x) for x in rngenv.NpShim(env).random.choice(
            np.array([0, 1]), k, p=[1 - t, t])))
        r = set()
        for s in range(300):
            np.random.seed(s)
            r.add(tuple(int(x) for x in np.random.choice(np.array([0, 1]), k, p=[1 - t, t])))
        if m != r:
            raise HarnessError("ties model %r real %r" % (m, r))
        cases += 1
    for lo, hi in ((1, 2), (1, 4), (2, 3)):
        m = model_set(lambda env: rngenv.NpShim(env).random.randint(lo, hi))
        r = set()
        for s in range(300):
            np.random.seed(s)
            r.add(int(np.random.randint(lo, hi)))
        if m != r:
            raise HarnessError("randint model %r real %r" % (m, r))
        cases += 1
    tally.inc("primitive_conformance_cases", cases)
    tally.inc("traces_validated", cases)


def _shuf(sh, n):
    x = list(range(n))
    sh.shuffle(x)
    return x


def vectors_for(tier, which):
    cap = CAPS[tier]
    vs = genvectors.rng_vectors(tier)
    if which == "C12":
        vs = [a for a in vs if a["twopl"]]
    keep = [a for a in vs if genvectors.schedule_bound(a) <= cap]
    return keep, len(vs) - len(keep), cap


def main(tier, which="C08"):
    t0 = time.time()
    seed = evidence.seed()
    keep, skipped, cap = vectors_for(tier, which)
    # big vectors first for load balance
    keep.sort(key=genvectors.schedule_bound, reverse=True)
    items = [(a, cap, REAL_SEEDS[tier], seed) for a in keep]
    tally = pool.run(lambda it, t: work_rng(it, t, which), items, chunksize=1)
    if which == "C08":
        tally.merge(pool.run(work_quota, genvectors.quota_vectors(), chunksize=50))
        primitive_conformance(tally)
    else:
        qv = [a for a in genvectors.quota_vectors() if a["twopl"]]
        tally.merge(pool.run(lambda a, t: work_quota(a, t, "C12"), qv, chunksize=50))
    c = tally.c
    coverage = {
        "states": c.get("executions", 0),
        "transitions": c.get("executions", 0) + c.get("distinct_files", 0),
        "traces_validated_against_impl": c.get("traces_validated", 0),
        "samples": tally.samples,
        "exhaustive": not c.get("vectors_skipped_over_cap"),
        "evaluations": c.get("executions", 0),
        "distinct_nontrivial": c.get("nontrivial", 0),
        "rule": "grid of accepted argument vectors (n1,n2,n3<=3, all pmin<=pmax<=n2, t in "
                "{0,0.5,1}, one/two-sided); each vector whose schedule bound is <= cap is explored "
                "over EVERY RNG answer sequence (shuffle: all permutations; randint: all values; "
                "choice: all ordered selections / all 0-1 vectors over the support); states = "
                "complete generator executions; transitions = executions + distinct files; "
                "non-trivial = vector with more than one distinct output file",
        "vectors_fully_explored": c.get("vectors", 0),
        "vectors_skipped_by_schedule_bound": skipped,
        "vectors_skipped_over_cap_at_run_time": c.get("vectors_skipped_over_cap", 0),
        "per_vector_cap": cap,
        "max_schedules_one_vector": c.get("max_schedules_one_vector", 0),
        "distinct_files": c.get("distinct_files", 0),
        "quota_vectors_default_rng": c.get("quota_vectors", 0),
        "real_rng_conformance_runs": c.get("conformance_runs", 0),
        "primitive_conformance_cases": c.get("primitive_conformance_cases", 0),
        "sentinel_rechecks_from_non_initial_process_state": c.get("sentinel_rechecks", 0),
    }
    if not c.get("vectors"):
        tally.harness_errors.append("vacuous: no vector explored")
    assumptions = [
        "RNG modelled by RngEnv (all outcomes in the support of each call); bound to numpy/random by primitive-level set equality and by real-seed runs whose files must lie in the explored set",
        "a vector is explored completely or not at all (cap); vectors above the cap are listed as skipped, never as covered",
        "quota sums are swept with the default RNG answers only (quota spreading consumes no randomness)",
        "skew only changes probabilities, not supports; varied on three small vectors",
    ]
    pid = PID if which == "C08" else "C12"
    return evidence.conclude(pid, tier, LEVEL, tally, coverage, assumptions, t0)


def replay(path, which="C08"):
    from ..explore import Env
    from ..pool import Tally
    with open(path) as f:
        p = json.load(f)
    a = p["args"]
    res = rngenv.run_generator(genvectors.argv_of(a), Env(p.get("choices") or []))
    t = Tally()
    print("argv:", genvectors.argv_of(a), "choices:", p.get("choices"))
    for name, text in (res["files"] or {}).items():
        print("---", name)
        print(text)
    print("exc:", res["exc"])
    check_result(a, res, t, p.get("choices"), which)
    for v in t.violations:
        print("violation:", v["fingerprint"])
    bad = bool(t.violations) or p.get("fingerprint") == "length-unreachable"
    print("REPRODUCED" if bad else "NOT REPRODUCED")
    return 1 if bad else 0
