"""C03 - each criterion optimises the documented quantity.
C04 shares the judge (sequences of criteria, lexicographic optimum)."""
from __future__ import annotations

from .. import ref, sweep
from .. import instances as I

PID = "C03"
LEVEL = "model_checking"


def ordered_crits(ctx):
    """Criteria in increasing position order (what the property prescribes)."""
    if ctx.positions:
        order = sorted(range(len(ctx.crits)), key=lambda i: ctx.positions[i])
        return [ctx.crits[i] for i in order]
    return list(ctx.crits)


def judge_lex(ctx, execs, tally, pid):
    inst = ctx.inst
    crits = ordered_crits(ctx)
    if not crits:
        return
    feas = ref.feasible_set(inst, ctx.pc, ctx.stab)
    if not feas:
        tally.inc("infeasible_items_skipped")
        return
    sets = ref.lex_optimal_sets(inst, crits, ctx.pc, ctx.stab, ctx.twopl, S0=feas)
    final = set(sets[-1])
    keys = [ref.criterion_key(inst, c, ctx.twopl) for c in crits]
    opt_vals = [keys[i](sets[i + 1][0]) for i in range(len(crits))]
    # non-trivial: the criterion discriminates (C03) / the later criterion
    # conflicts with the earlier one (C04)
    if pid == "C03":
        if len(sets[1]) < len(sets[0]):
            tally.inc("nontrivial")
    else:
        k2 = keys[1]
        if len(sets[2]) < len(sets[1]) and min(k2(M) for M in sets[0]) != min(k2(M) for M in sets[1]):
            tally.inc("nontrivial")
        elif len(sets[2]) < len(sets[1]):
            tally.inc("second_criterion_discriminates")
    all_reported = set()
    for e in execs:
        M, d = sweep.reported(e, "short")
        if M is None:
            tally.inc("not_optimal_status_skipped")   # C02's business
            continue
        if M not in set(feas):
            tally.inc("not_feasible_skipped")          # C01/C05's business
            continue
        all_reported.add(M)
        if M in final:
            continue
        vals = [keys[i](M) for i in range(len(crits))]
        lvl = next(i for i in range(len(crits)) if vals[i] != opt_vals[i])
        name, extras = crits[lvl]
        v = ctx.describe()
        v["choices"] = e.choices
        v["ordered_crits"] = [list(c) for c in crits]
        if pid == "C03":
            v["fingerprint"] = "suboptimal:%s" % name
        else:
            worse = "earlier-worsened" if lvl < len(crits) - 1 else "last-not-optimal"
            v["fingerprint"] = "lex:%s:level%d:%s" % (
                "+".join(c[0] for c in crits), lvl + 1, worse)
        v["what"] = ("reported %r; criterion #%d %s%r has value %r but the optimum over the "
                     "matchings optimal for the earlier criteria is %r (e.g. %r)"
                     % (M, lvl + 1, name, tuple(extras), vals[lvl], opt_vals[lvl],
                        sets[lvl + 1][0]))
        tally.violation(v)
    if all_reported == final:
        tally.inc("items_all_lexoptimal_matchings_returnable")
    if execs:
        tally.sample({"file": ctx.text, "argv": ctx.tail,
                      "lexicographic_optimum_set": sorted(final)[:5],
                      "reported_over_all_classes": sorted(all_reported)[:5]})


def judge(ctx, execs, tally):
    judge_lex(ctx, execs, tally, "C03")


def main(tier):
    return sweep.run_lp_check(
        PID, LEVEL, tier, judge,
        "every instance x {-pc,-stab} x each single criterion with every argument vector of "
        "the small domain; every optimal class; value of the criterion on the printed matching "
        "must equal the optimum over the reference feasible set; non-trivial = the criterion "
        "discriminates between feasible matchings of the item",
        extra=lambda t: {k: t.c.get(k, 0) for k in
                         ("infeasible_items_skipped", "not_optimal_status_skipped",
                          "not_feasible_skipped",
                          "items_all_lexoptimal_matchings_returnable")},
        vacuity=lambda t: None if t.c.get("nontrivial") else "criterion never discriminates")


def replay(path, pid="C03"):
    from ..pool import Tally
    p, obs = sweep.generic_replay(path)
    inst = I.from_json(p["instance"])
    ctx = sweep.Ctx()
    ctx.inst, ctx.twopl, ctx.pc, ctx.stab = inst, p["twopl"], p["pc"], p["stab"]
    ctx.crits = [(c[0], tuple(c[1])) for c in p["crits"]]
    ctx.positions = p.get("positions")
    ctx.text, ctx.tail = p["file"], p["argv"]
    e = sweep.Exec()
    from .. import lpcheck, lprun
    e.choices, e.obs = p.get("choices"), obs
    t = lpcheck.get_output(obs, "short")
    e.short = lprun.parse_results(t) if isinstance(t, str) else None
    e.long = None
    tl = Tally()
    judge_lex(ctx, [e], tl, pid)
    for v in tl.violations:
        print("violation:", v["fingerprint"], v["what"])
    print("REPRODUCED" if tl.violations else "NOT REPRODUCED")
    return 1 if tl.violations else 0
