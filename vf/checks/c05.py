"""C05 - with -stab the solver searches exactly the stable matchings."""
from __future__ import annotations

from .. import ref, sweep
from .. import instances as I

PID = "C05"
LEVEL = "model_checking"


def judge(ctx, execs, tally):
    if not ctx.stab:
        return
    inst = ctx.inst
    valid = [M for M in ref.assignments(inst) if ref.valid(inst, M, ctx.pc)]
    stable = [M for M in valid if not ref.blocking_pairs(inst, M)]
    if stable and len(stable) < len(valid):
        tally.inc("nontrivial")          # some valid matchings are unstable, some stable
    if not stable:
        tally.inc("items_without_stable_matching")
    reported = set()
    ok_status = True
    for e in execs:
        M, d = sweep.reported(e, "short")
        if M is None:
            continue
        reported.add(M)
        if ref.validity_defects(inst, M, ctx.pc):
            continue                      # C01's business
        bps = ref.blocking_pairs(inst, M)
        if bps:
            kinds = sorted({k for _, _, ks in bps for k in ks})
            v = ctx.describe()
            v["choices"] = e.choices
            v["fingerprint"] = "unstable-reported:" + ",".join(kinds)
            v["what"] = "under -stab the reported matching %r admits blocking pairs %r" % (M, bps)
            tally.violation(v)
    any_status = [((e.short or {}).get("pulp_status")) for e in execs]
    crits = [c[0] for c in ctx.crits]
    if not ctx.crits and not ctx.partial:
        # the back end may return every feasible point: both directions
        if "Optimal" in any_status or "Infeasible" in any_status:
            missing = [M for M in stable if M not in reported]
            if missing and not any(e.obs["exc"] for e in execs):
                v = ctx.describe()
                v["fingerprint"] = "stable-excluded"
                v["what"] = ("stable valid matchings %r are not in the feasible set of the "
                             "integer program (reported set %r)" % (missing[:5], sorted(reported)[:8]))
                tally.violation(v)
        tally.inc("both_direction_items")
    elif crits in (["maxsize"], ["minsize"]) and stable:
        sizes = [sum(1 for p in M if p) for M in stable]
        want = max(sizes) if crits == ["maxsize"] else min(sizes)
        for e in execs:
            M, d = sweep.reported(e, "short")
            if M is None:
                continue
            if d.get("size") != want and not ref.validity_defects(inst, M, ctx.pc) \
                    and not ref.blocking_pairs(inst, M):
                v = ctx.describe()
                v["choices"] = e.choices
                v["fingerprint"] = "stable-%s-size" % crits[0]
                v["what"] = "size %r reported, reference %s size of a stable matching is %d" % (
                    d.get("size"), crits[0], want)
                tally.violation(v)
        tally.inc("size_items")
    if execs:
        tally.sample({"file": ctx.text, "argv": ctx.tail,
                      "stable_valid_matchings": stable[:6],
                      "valid_matchings": len(valid),
                      "reported": sorted(reported)[:6]})


def work_resolve(inst, tally):
    """History solve, get, solve, get on ONE Solver under -stab: the report
    after the re-solve must again be a stable matching of maximum size."""
    from .. import lpcheck, lprun
    from ..explore import Env
    text = I.render(inst)
    for crits in ((("maxsize", ()),), ()):
        tail = lpcheck.tail_for(inst, False, True, list(crits))
        obs = lprun.run_solver(text, tail, Env([]),
                               history=["solve", "short", "long", "solve", "short"])
        tally.inc("executions")
        tally.inc("answers", len(obs["solves"] or []))
        tally.inc("resolve_histories")
        shorts = [v for n, v in obs["outputs"] if n == "short"]
        base = {"instance": I.to_json(inst), "file": text, "argv": tail, "twopl": True,
                "pc": False, "stab": True, "crits": [list(c) for c in crits],
                "history": ["solve", "short", "long", "solve", "short"]}
        if obs["exc"] is not None:
            v = dict(base)
            v["fingerprint"] = "resolve:exc:" + obs["exc"]["fingerprint"]
            v["what"] = "history solve,get,get,solve,get raised: %s" % obs["exc"]["message"]
            tally.violation(v)
            continue
        valid = [M for M in ref.assignments(inst) if ref.valid(inst, M, False)]
        stable = [M for M in valid if not ref.blocking_pairs(inst, M)]
        for which, t in zip(("first", "second"), shorts):
            d = lprun.parse_results(t)
            if "matching" not in d:
                if stable:
                    v = dict(base)
                    v["fingerprint"] = "resolve:%s-report-no-matching" % which
                    v["what"] = "%s report shows status %r although stable matchings exist" % (
                        which, d.get("pulp_status"))
                    tally.violation(v)
                continue
            M = tuple(d["matching"])
            bad = None
            if ref.validity_defects(inst, M, False):
                bad = "invalid"
            elif ref.blocking_pairs(inst, M):
                bad = "unstable"
            elif crits and d.get("size") != max(sum(1 for p in S if p) for S in stable):
                bad = "not-maximum-stable-size"
            if bad:
                v = dict(base)
                v["fingerprint"] = "resolve:%s-report-%s" % (which, bad)
                v["what"] = "%s report of the history prints %r: %s (blocking pairs %r)" % (
                    which, M, bad, ref.blocking_pairs(inst, M)[:3])
                tally.violation(v)


def resolve_instances(tier):
    out = [x for x in I.family_A(True, profiles=("unit", "cap2", "lectight"))
           if (x.ns, x.np) in ((2, 2), (3, 1), (1, 3))]
    out += list(I.family_M(sizes=(4, 5) if tier == "thorough" else (5,)))[::2]
    return out


def main(tier):
    from . import c02
    return sweep.run_lp_check(
        PID, LEVEL, tier, judge,
        "every two-sided instance x {-pc} x -stab x {none, maxsize, minsize}; for no "
        "criterion the optimal classes are the whole feasible set and must equal the set of "
        "stable valid matchings (both inclusions); non-trivial = item with at least one "
        "stable and at least one unstable valid matching",
        extra=lambda t: {k: t.c.get(k, 0) for k in
                         ("both_direction_items", "size_items",
                          "items_without_stable_matching", "resolve_histories")},
        extra_work=(work_resolve, resolve_instances(tier),
                    "history solve,get,get,solve,get on one Solver under -stab x {maxsize, none}: "
                    "A(2,2),(3,1),(1,3) x {unit,cap2,lectight} and every second M instance"),
        interleave_opts=c02.INTERLEAVE_OPTS[:5],
        vacuity=lambda t: None if t.c.get("nontrivial") else "no item separates stable from unstable")


def replay(path):
    p, obs = sweep.generic_replay(path)
    inst = I.from_json(p["instance"])
    from .. import lpcheck, lprun
    t = lpcheck.get_output(obs, "short")
    bad = False
    valid = [M for M in ref.assignments(inst) if ref.valid(inst, M, p["pc"])]
    stable = [M for M in valid if not ref.blocking_pairs(inst, M)]
    print("reference stable valid matchings:", stable)
    if isinstance(t, str):
        d = lprun.parse_results(t)
        if "matching" in d:
            M = tuple(d["matching"])
            bps = ref.blocking_pairs(inst, M)
            print("reported", M, "blocking pairs", bps)
            bad = bool(bps) or (p["fingerprint"].startswith("stable-") and
                                "size" in p["fingerprint"])
        if p["fingerprint"] == "stable-excluded":
            bad = True
    print("REPRODUCED" if bad else "NOT REPRODUCED")
    return 1 if bad else 0
