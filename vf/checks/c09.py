"""C09 - every generated instance is solvable by the solver under the
documented flags: generator -> solver pipeline over every distinct file of an
exhaustive RNG exploration."""
from __future__ import annotations

import json
import time

from .. import evidence, genfile, genvectors, lpcheck, lprun, pool, ref, rngenv, sweep
from .. import instances as I
from ..pool import Tally
from . import c01, c02, c05, c07, c10

PID = "C09"
LEVEL = "model_checking"
BOUND = {"quick": 260, "thorough": 6000}          # full pipeline (LP + brute force)
BOUND_BF = {"quick": 5000, "thorough": 40000}     # loading + brute force only


def to_inst(f, a):
    """Abstract instance denoted by a generated file (own parser)."""
    kind = 3 if a["mp"] == "spa" else 2
    sprefs = tuple(tuple(tuple(g) for g in groups) for groups in f["first"])
    pq = tuple((s["lq"], s["uq"]) for s in f["second"])
    if kind == 2:
        lprefs = tuple(tuple(tuple(g) for g in s["prefs"]) for s in f["second"]) \
            if a["twopl"] else None
        return I.make2(f["n1"], f["n2"], sprefs, lprefs, pq)
    lect = tuple(s["lect"] for s in f["second"])
    lq3 = tuple((s["lq"], s["t"], s["uq"]) for s in f["third"])
    lprefs = tuple(tuple(tuple(g) for g in s["prefs"]) for s in f["third"]) \
        if a["twopl"] else None
    return I.make3(f["n1"], f["n2"], f["n3"], sprefs, lect, lprefs, pq, lq3)


def solver_options(a):
    two = a["twopl"]
    opts = [(False, False, ()), (False, False, (("maxsize", ()),)), (True, False, ()),
            (False, False, (("maxsize", ()), ("gen", (2,))))]
    if two:
        opts += [(False, True, ()), (True, True, (("maxsize", ()),))]
    return opts


def judge_file(text, a, tally, lp=True):
    defects, f = genfile.check_file(text, a)
    if f is None or defects:
        tally.inc("files_not_wellformed")     # well-formedness itself is C08's business
        if f is None:
            # our parser cannot read it; the pipeline property still requires the
            # solver to load whatever the generator wrote
            kind = 3 if a["mp"] == "spa" else 2
            try:
                from matchingproblems.solver.solver import Solver
                path = lprun.inst_file(text, "c09raw.txt")
                with lprun._Quiet():
                    Solver(["-f", path, "-na", str(kind)] + (["-twopl"] if a["twopl"] else []))
            except BaseException as e:     # noqa
                if isinstance(e, lprun.HarnessError):
                    raise
                fp = lprun.exc_fingerprint(e) if isinstance(e, Exception) else type(e).__name__
                tally.violation({"args": a, "gen_argv": genvectors.argv_of(a), "file": text,
                                 "fingerprint": "load-exc:" + fp,
                                 "what": "the solver cannot load a file the generator wrote: %r" % (e,)})
            return
    try:
        inst = to_inst(f, a)
    except Exception:      # noqa
        tally.inc("files_not_wellformed")
        return
    two = a["twopl"]
    tally.inc("files")
    base = {"args": a, "gen_argv": genvectors.argv_of(a), "file": text,
            "instance": I.to_json(inst), "twopl": two}
    # 1. loading agrees with the file's content
    try:
        S = c10.load(inst, text, two)
        d = c10.model_defects(S, inst, two, False)
    except BaseException as e:     # noqa
        if isinstance(e, lprun.HarnessError):
            raise
        d = ["load-exc:" + (lprun.exc_fingerprint(e) if isinstance(e, Exception)
                            else type(e).__name__)]
    if d:
        v = dict(base)
        v["fingerprint"] = "load:" + ",".join(d)
        v["what"] = "solver's reading of the generated file disagrees with its content: %s" % d
        v["argv"] = ["-na", str(inst.kind)] + (["-twopl"] if two else [])
        v["pc"], v["stab"], v["crits"] = False, False, []
        tally.violation(v)
        return
    R = ref.R(inst)
    # 2. LP mode: valid matching or correct infeasibility verdict (every class)
    for pc, stab, crits in (solver_options(a) if lp else []):
        crits = [c for c in crits if not (c[0] == "gen" and c[1] and c[1][0] > R)]
        ctx = sweep.Ctx()
        ctx.inst, ctx.twopl, ctx.pc, ctx.stab, ctx.crits = inst, two, pc, stab, tuple(crits)
        ctx.positions = None
        ctx.text = text
        ctx.tail = lpcheck.tail_for(inst, pc, stab, crits, twopl=two)
        execs = []
        for choices, obs in lpcheck.explore_item(text, ctx.tail, tally):
            e = sweep.Exec()
            e.choices, e.obs = choices, obs
            st, lg = lpcheck.get_output(obs, "short"), lpcheck.get_output(obs, "long")
            e.short_text = st if isinstance(st, str) else None
            e.long_text = lg if isinstance(lg, str) else None
            e.short = lprun.parse_results(st) if isinstance(st, str) else None
            e.long = lprun.parse_results(lg) if isinstance(lg, str) else None
            obs["solver"] = None
            execs.append(e)
        sub = Tally()
        c02.judge(ctx, execs, sub)
        c01.judge(ctx, execs, sub)
        if stab:
            c05.judge(ctx, execs, sub)      # "a valid matching" under -stab is a stable one
        for v in sub.violations:
            v = dict(v)
            v["fingerprint"] = "lp:" + v["fingerprint"]
            v["args"] = a
            tally.violation(v)
        tally.inc("lp_items")
    # 3. brute force mode
    for pc in (False, True):
        sub = Tally()
        c07.judge_one(inst, text, two, pc, sub)
        for v in sub.violations:
            v = dict(v)
            v["fingerprint"] = "bf:" + v["fingerprint"]
            v["args"] = a
            tally.violation(v)
        tally.inc("bf_items")


def work(item, tally):
    a, cap, lp = item
    argv = genvectors.argv_of(a)
    texts = set()
    n = 0
    for choices, res in rngenv.explore_vector(argv, cap):
        n += 1
        if n > cap:
            tally.inc("vectors_skipped_over_cap")
            return
        if res["exc"] is not None:
            tally.inc("generator_exceptions_skipped")      # C08's business
            continue
        for text in (res["files"] or {}).values():
            texts.add(text)
    tally.inc("vectors")
    tally.inc("generator_executions", n)
    if len(texts) > 1:
        tally.inc("nontrivial")
    for text in sorted(texts):
        judge_file(text, a, tally, lp=lp)
    if not lp:
        tally.inc("vectors_bf_only")
    if texts and tally.c.get("vectors", 0) % 20 == 1:
        tally.sample({"generator_argv": argv, "distinct_files": len(texts),
                      "one_file": sorted(texts)[0],
                      "solver_options_tried": [lpcheck.tail_for(
                          I.make2(1, 1, (((1,),),), None, ((0, 1),)), pc, st, list(cr))[2:]
                          for pc, st, cr in solver_options(a)] + [["-bf"], ["-pc", "-bf"]]})


def main(tier):
    t0 = time.time()
    cap = BOUND[tier]
    cap_bf = BOUND_BF[tier]
    vs = [a for a in genvectors.rng_vectors(tier)
          if genvectors.schedule_bound(a) <= cap_bf and a.get("numinst", 1) == 1]
    vs.sort(key=genvectors.schedule_bound, reverse=True)
    tally = pool.run(work, [(a, cap_bf if genvectors.schedule_bound(a) > cap else cap,
                             genvectors.schedule_bound(a) <= cap) for a in vs], chunksize=1)
    c = tally.c
    coverage = {
        "states": c.get("executions", 0) + c.get("generator_executions", 0) + c.get("bf_items", 0),
        "transitions": c.get("answers", 0) + c.get("generator_executions", 0),
        "traces_validated_against_impl": c.get("files", 0),
        "samples": tally.samples,
        "exhaustive": not c.get("vectors_skipped_over_cap") and not c.get("items_capped"),
        "evaluations": c.get("executions", 0) + c.get("bf_items", 0),
        "distinct_nontrivial": c.get("nontrivial", 0),
        "rule": "generator argument vectors with schedule bound <= %d explored over every RNG "
                "answer sequence; every DISTINCT file is fed, as written, to the real solver with "
                "-na 2|3 and -twopl iff generated two-sided, under {none, -maxsize 1, -pc, -maxsize 1 "
                "-gen 2 2, and when two-sided -stab, -pc -stab -maxsize 1} (every optimal class) and "
                "under -bf / -pc -bf; oracles of C10 (model = file content), C01+C02 and C07; "
                "traces_validated_against_impl = distinct generated files pushed through the real "
                "pipeline; non-trivial = vectors with more than one distinct file" % cap,
        "generator_vectors": c.get("vectors", 0),
        "generator_vectors_load_and_bruteforce_only": c.get("vectors_bf_only", 0),
        "schedule_bound_load_and_bruteforce_only": cap_bf,
        "generator_executions": c.get("generator_executions", 0),
        "distinct_files_solved": c.get("files", 0),
        "lp_items": c.get("lp_items", 0),
        "lp_executions": c.get("executions", 0),
        "bf_runs": c.get("bf_items", 0),
        "files_not_wellformed_by_C08_rules": c.get("files_not_wellformed", 0),
    }
    if not c.get("files"):
        tally.harness_errors.append("vacuous: no generated file solved")
    assumptions = sweep.LP_ASSUMPTIONS + [
        "generator randomness owned by RngEnv (see C08); only the smaller parameter slice (schedule bound) is pushed through the solver",
        "files that C08 judges ill-formed are skipped here (reported once, under C08)"]
    return evidence.conclude(PID, tier, LEVEL, tally, coverage, assumptions, t0)


def replay(path):
    with open(path) as f:
        p = json.load(f)
    t = Tally()
    judge_file(p["file"], p["args"], t)
    print(p["file"])
    for v in t.violations:
        print(v["fingerprint"], v["what"])
    print("REPRODUCED" if t.violations else "NOT REPRODUCED")
    return 1 if t.violations else 0
