"""C15 - generator accepts every documented argument set and cleanly rejects
invalid ones (before any file or directory is written)."""
from __future__ import annotations

import itertools
import json
import os
import time

from .. import evidence, pool, rngenv
from ..explore import Env

PID = "C15"
LEVEL = "exploration"

# An argument set is a dict flag -> value (None = flag absent; True for -twopl)
ORDER = ["-numinst", "-mp", "-n1", "-n2", "-n3", "-pmin", "-pmax", "-twopl",
         "-t1", "-t2", "-skew", "-lq", "-uq", "-llq", "-lt", "-luq"]

REQUIRED = {"ha": ["-n1", "-n2", "-pmin", "-pmax", "-uq"],
            "sm": ["-n1", "-pmin", "-pmax", "-twopl"],
            "hr": ["-n1", "-n2", "-pmin", "-pmax", "-uq", "-twopl"],
            "spa": ["-n1", "-n2", "-n3", "-pmin", "-pmax", "-uq", "-luq"]}
INAPPLICABLE = {"ha": ["-twopl", "-n3", "-t2", "-llq", "-luq", "-lt"],
                "sm": ["-n2", "-n3", "-uq", "-lq", "-llq", "-luq", "-lt"],
                "hr": ["-n3", "-llq", "-luq", "-lt"],
                "spa": []}


def to_argv(d, order=0):
    """order 0: canonical flag order; 1: reversed; 2: rotated by 5."""
    keys = list(ORDER)
    if order == 1:
        keys = keys[::-1]
    elif order == 2:
        keys = keys[5:] + keys[:5]
    out = []
    for k in keys:
        v = d.get(k)
        if v is None or v is False:
            continue
        if v is True:
            out.append(k)
        else:
            out += [k, str(v)]
    return out


def legal_vectors(tier):
    """Legal argument sets: required parameters with in-range values, optional
    ones present or absent (only combinations consistent with the defaults)."""
    nmax = 3
    out = []
    for mp in ("ha", "sm", "hr", "spa"):
        for n1 in range(1, nmax + 1):
            for n2 in ([None] if mp == "sm" else range(1, nmax + 1)):
                m = n1 if mp == "sm" else n2
                for n3 in (range(1, nmax + 1) if mp == "spa" else [None]):
                    for pmin in range(1, m + 1):
                        for pmax in range(pmin, m + 1):
                            base = {"-numinst": 1, "-mp": mp, "-n1": n1, "-n2": n2,
                                    "-n3": n3, "-pmin": pmin, "-pmax": pmax}
                            if mp in ("sm", "hr"):
                                base["-twopl"] = True
                            uqs = [None] if mp == "sm" else [m, m + 1, 2 * m]
                            for uq in uqs:
                                lqs = [None] if mp == "sm" else [None, 0, 1, uq]
                                for lq in lqs:
                                    d = dict(base)
                                    d["-uq"], d["-lq"] = uq, lq
                                    if mp != "spa":
                                        out.append(d)
                                        continue
                                    for luq in (1, n3, 2 * n3):
                                        for lt in (None, 0, luq):
                                            for llq in (None, 0, lt):
                                                if llq is not None and lt is None and llq > 0:
                                                    continue
                                                e = dict(d)
                                                e["-luq"], e["-lt"], e["-llq"] = luq, lt, llq
                                                out.append(e)
    # two-digit counts (numeric, not textual, comparison of bounds)
    for mp in ("ha", "hr", "spa", "sm"):
        for n1, n2 in ((9, 10), (10, 9), (11, 12), (10, 10)):
            m = n1 if mp == "sm" else n2
            for pmin, pmax in ((1, m), (9, m), (m, m), (2, 10 if m >= 10 else m)):
                if pmin > pmax:
                    continue
                d = {"-numinst": 1, "-mp": mp, "-n1": n1, "-n2": None if mp == "sm" else n2,
                     "-n3": 10 if mp == "spa" else None, "-pmin": pmin, "-pmax": pmax,
                     "-uq": None if mp == "sm" else m + 1, "-lq": None if mp == "sm" else 9}
                if mp in ("sm", "hr"):
                    d["-twopl"] = True
                if mp == "spa":
                    d.update({"-luq": 10, "-lt": 9, "-llq": 2})
                if d not in out:
                    out.append(d)
    # optional parameters on a reduced base set
    extra = []
    for d in out:
        if d["-n1"] == 2 and d["-pmin"] == 1 and d.get("-lq") is None and \
                d.get("-lt") is None and d.get("-llq") is None:
            for t1, t2, skew, twopl, numinst in itertools.product(
                    (None, 0.0, 0.5, 1.0), (None, 0.0, 0.5, 1.0), (None, 2.0),
                    (None, True), (1, 2)):
                mp = d["-mp"]
                if mp == "ha" and (t2 is not None or twopl):
                    continue
                if mp in ("sm", "hr") and twopl is None:
                    continue
                if (t1, t2, skew, numinst) == (None, None, None, 1) and \
                        (twopl is None) == (mp in ("ha", "spa")):
                    if not (mp == "spa" and twopl):
                        continue
                e = dict(d)
                e.update({"-t1": t1, "-t2": t2, "-skew": skew, "-numinst": numinst})
                if mp == "spa":
                    e["-twopl"] = twopl
                extra.append(e)
    return out + extra


def perturbations(d):
    """Every single-fault perturbation of a legal vector: (description, dict)."""
    mp = d["-mp"]
    out = []
    for k in REQUIRED[mp]:
        e = dict(d)
        e[k] = None
        out.append(("required-removed:" + k, e))
    # each inapplicable parameter is supplied once with the value that happens
    # to be its documented default and once with another value
    fill = {"-twopl": [True], "-n2": [2], "-n3": [1], "-t2": [0.0, 0.5], "-llq": [0, 1],
            "-luq": [2], "-lt": [0, 1], "-uq": [max(d["-n1"], 2)], "-lq": [0, 1]}
    for k in INAPPLICABLE[mp]:
        if d.get(k) is None:
            for val in fill[k]:
                e = dict(d)
                e[k] = val
                out.append(("inapplicable-added:%s=%s" % (k, val), e))
    m = d["-n1"] if mp == "sm" else d["-n2"]

    def viol(name, **kw):
        e = dict(d)
        e.update(kw)
        out.append(("bound:" + name, e))

    viol("numinst=0", **{"-numinst": 0})
    viol("n1=0", **{"-n1": 0})
    if mp != "sm":
        viol("n2=0", **{"-n2": 0})
    if mp == "spa":
        viol("n3=0", **{"-n3": 0})
    viol("pmin=0", **{"-pmin": 0})
    viol("pmax=pmin-1", **{"-pmax": d["-pmin"] - 1})
    viol("pmax=n+1", **{"-pmax": m + 1})
    viol("t1=-0.1", **{"-t1": -0.1})
    viol("t1=1.1", **{"-t1": 1.1})
    if mp != "ha":
        viol("t2=-0.1", **{"-t2": -0.1})
        viol("t2=1.1", **{"-t2": 1.1})
    if mp != "sm":
        viol("uq=n2-1", **{"-uq": m - 1})
        viol("lq=uq+1", **{"-lq": d["-uq"] + 1})
    if mp == "spa":
        viol("lt=luq+1", **{"-lt": d["-luq"] + 1})
        lt = d.get("-lt")
        viol("llq=lt+1", **{"-llq": (lt if lt is not None else 0) + 1})
    return out


def run(d, tag, order=0):
    argv = to_argv(d, order)
    res = rngenv.run_generator(argv, Env([]), tag=tag)
    return argv, res


def judge_legal(d, tally, order=0):
    argv, res = run(d, "c15", order)
    tally.inc("evaluations")
    tally.inc("legal_vectors")
    if res["exc"] is not None:
        fp = "legal-rejected:" + res["exc"]["fingerprint"] + ":" + d["-mp"]
        tally.violation({"args": d, "argv": argv, "fingerprint": fp, "legal": True, "order": order,
                         "what": "documented legal argument set %r was not accepted: %s %s" % (
                             argv, res["exc"]["fingerprint"], res["exc"].get("message", "")[-160:])})
        return
    want = ["%d.txt" % i for i in range(d["-numinst"])]
    if sorted(res["files"] or {}) != want:
        tally.violation({"args": d, "argv": argv, "fingerprint": "legal-wrong-file-set",
                         "legal": True,
                         "what": "accepted %r but wrote %r" % (argv, sorted(res["files"] or {}))})


def judge_illegal(desc, d, tally, order=0):
    argv, res = run(d, "c15", order)
    tally.inc("evaluations")
    tally.inc("illegal_vectors")
    tally.inc("nontrivial")
    exc = res["exc"]
    kind = desc.split(":")[0] + ":" + desc.split(":")[1].split("=")[0]
    if desc.startswith("inapplicable-added") and desc.endswith(("=0", "=0.0")):
        kind += "(default-valued)"
    if exc is None:
        tally.violation({"args": d, "argv": argv, "fault": desc, "legal": False, "order": order,
                         "fingerprint": "illegal-accepted:%s:%s%s" % (
                             d["-mp"], kind, "" if order == 0 else ":flag-order-%d" % order),
                         "what": "invalid argument set (%s) %r was accepted" % (desc, argv)})
        return
    if exc["type"] != "SystemExit" or exc.get("code") != 2:
        tally.violation({"args": d, "argv": argv, "fault": desc, "legal": False, "order": order,
                         "fingerprint": "illegal-not-usage-error:%s:%s" % (kind, exc["fingerprint"]),
                         "what": "invalid argument set (%s) %r: expected a usage error, got %s %s" % (
                             desc, argv, exc["fingerprint"], exc.get("message", "")[-160:])})
        return
    if res["dir_exists"]:
        tally.violation({"args": d, "argv": argv, "fault": desc, "legal": False,
                         "fingerprint": "rejected-after-writing:" + kind,
                         "what": "rejected (%s) but the output directory exists afterwards" % desc})


def work(item, tally):
    kind, desc, d = item[:3]
    order = item[3] if len(item) > 3 else 0
    if kind == "legal":
        judge_legal(d, tally, order)
        if tally.c["evaluations"] % 3000 == 1:
            tally.sample({"legal": to_argv(d)})
    else:
        judge_illegal(desc, d, tally, order)
        if tally.c["evaluations"] % 3000 == 1:
            tally.sample({"illegal": desc, "argv": to_argv(d)})


def main(tier):
    t0 = time.time()
    legal = legal_vectors(tier)
    items = [("legal", "", d) for d in legal]
    base_for_faults = [d for d in legal
                       if d.get("-t1") is None and d.get("-skew") is None and
                       d["-numinst"] == 1 and
                       (tier == "thorough" or d["-n1"] >= 9 or
                        (d["-n1"] <= 2 and d.get("-lq") in (None, 1) and
                         d.get("-llq") in (None, 0)))]
    for d in base_for_faults:
        for desc, e in perturbations(d):
            items.append(("illegal", desc, e))
    # the same verdicts must hold whatever the order of flags on the command line
    small = [d for d in base_for_faults if d["-n1"] <= 2 and (d.get("-n2") or 1) <= 2 and
             (d.get("-n3") or 1) <= 2]
    for order in (1, 2):
        for d in small:
            items.append(("legal", "", d, order))
            for desc, e in perturbations(d):
                items.append(("illegal", desc, e, order))
    tally = pool.run(work, items, chunksize=200)
    c = tally.c
    coverage = {
        "evaluations": c.get("evaluations", 0),
        "distinct_nontrivial": c.get("nontrivial", 0),
        "rule": "per problem type: legal vectors over n in 1..3, all pmin<=pmax<=n, quota sums at "
                "and around each bound, optional parameters present/absent; every single-fault "
                "perturbation (required removed / inapplicable added / one bound violated by one) "
                "of each base legal vector; real Generator(argv) with default RNG answers on a "
                "fresh non-existent output directory; non-trivial = perturbed (illegal) vectors",
        "samples": tally.samples,
        "exhaustive": True,
        "legal_vectors": c.get("legal_vectors", 0),
        "illegal_vectors": c.get("illegal_vectors", 0),
    }
    assumptions = [
        "bounds judged are exactly those listed in the property statement (negative quotas, skew<=0 and luq<n3 are not judged)",
        "legal vectors are consistent with the documented defaults (e.g. -llq > 0 only together with -lt)",
    ]
    return evidence.conclude(PID, tier, LEVEL, tally, coverage, assumptions, t0)


def replay(path):
    from ..pool import Tally
    with open(path) as f:
        p = json.load(f)
    t = Tally()
    if p.get("legal"):
        judge_legal(p["args"], t, p.get("order", 0))
    else:
        judge_illegal(p.get("fault", "x:y"), p["args"], t, p.get("order", 0))
    print(p["argv"])
    for v in t.violations:
        print(v["fingerprint"], v["what"])
    print("REPRODUCED" if t.violations else "NOT REPRODUCED")
    return 1 if t.violations else 0
