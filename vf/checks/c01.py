"""C01 - the reported matching is always a valid matching of the instance."""
from __future__ import annotations

from .. import lprun, ref, sweep
from .. import instances as I

PID = "C01"
LEVEL = "model_checking"


def long_defects(inst, d):
    """Validity as observable in the long format: a student under more than
    one project, occupancies not matching the matching line."""
    out = []
    students, projects, lecturers, errs = lprun.parse_long_sections(d)
    if errs:
        return ["long-unparseable"]
    M = d.get("matching")
    seen = {}
    for pid, lid, studs, k, uq in projects:
        for s in studs:
            seen[s] = seen.get(s, 0) + 1
        if k != len(studs):
            out.append("long-occupancy-count")
        if M is not None:
            implied = sorted(i + 1 for i, p in enumerate(M) if p == pid)
            if sorted(studs) != implied:
                out.append("long-project-assignees-differ-from-matching-line")
    if any(n > 1 for n in seen.values()):
        out.append("student-under-two-projects")
    return sorted(set(out))


def judge(ctx, execs, tally):
    inst = ctx.inst
    mset = set()
    for e in execs:
        M, d = sweep.reported(e, "short")
        ML, dl = sweep.reported(e, "long")
        if M is None and ML is None:
            continue
        tally.inc("reported_matchings")
        base = None
        defects = []
        if M is not None:
            mset.add(M)
            defects += ref.validity_defects(inst, M, ctx.pc)
        if ML is not None:
            if M is not None and ML != M:
                defects.append("long-matching-line-differs-from-short")
            defects += [x for x in ref.validity_defects(inst, ML, ctx.pc)
                        if x not in defects]
            defects += long_defects(inst, dl)
        if defects:
            v = ctx.describe()
            v["choices"] = e.choices
            v["fingerprint"] = "invalid:" + ",".join(sorted(set(defects)))
            v["what"] = "status Optimal, printed matching %r is not valid: %s" % (
                M if M is not None else ML, sorted(set(defects)))
            tally.violation(v)
    if len(mset) > 1:
        tally.inc("nontrivial")
    if execs:
        tally.sample({"file": ctx.text, "argv": ctx.tail,
                      "matchings_reported_over_all_optimal_classes":
                      sorted(mset)[:8], "classes": len(execs)})


def main(tier):
    from . import c02
    return sweep.run_lp_check(
        PID, LEVEL, tier, judge,
        "every instance x option vector of the families; every optimal class at "
        "the last solve (for no criterion: every feasible 0/1 point); non-trivial "
        "= item where the back end may return more than one distinct matching",
        interleave_opts=c02.INTERLEAVE_OPTS,
        vacuity=lambda t: None if t.c.get("reported_matchings") else "no matching reported")


def replay(path):
    p, obs = sweep.generic_replay(path)
    inst = I.from_json(p["instance"])
    from .. import lpcheck
    bad = False
    for op in ("short", "long"):
        t = lpcheck.get_output(obs, op)
        if isinstance(t, str):
            d = lprun.parse_results(t)
            if "matching" in d:
                df = ref.validity_defects(inst, tuple(d["matching"]), p["pc"])
                if op == "long":
                    df += long_defects(inst, d)
                print(op, "defects:", df)
                bad = bad or bool(df)
    print("REPRODUCED" if bad else "NOT REPRODUCED")
    return 1 if bad else 0
