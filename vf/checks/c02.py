"""C02 - Optimal exactly when a feasible matching exists; never errors."""
from __future__ import annotations

import time

from .. import evidence, lpcheck, pool, ref, sweep
from .. import instances as I
from ..families import lp_items

PID = "C02"
LEVEL = "model_checking"


def judge(ctx, execs, tally):
    inst = ctx.inst
    feas = ref.feasible_set(inst, ctx.pc, ctx.stab)
    if feas:
        tally.inc("feasible_items")
    else:
        tally.inc("infeasible_items")
    if ctx.crits and feas:
        tally.inc("nontrivial")
    for e in execs:
        obs = e.obs
        base = ctx.describe()
        base["choices"] = e.choices
        if obs["exc"] is not None:
            v = dict(base)
            v["fingerprint"] = "exc:" + obs["exc"]["fingerprint"]
            v["what"] = "exception %s at stage %s: %s" % (
                obs["exc"]["type"], obs["exc"]["stage"], obs["exc"]["message"])
            tally.violation(v)
            continue
        for which, d in (("short", e.short), ("long", e.long)):
            if d is None:
                continue
            status = d.get("pulp_status")
            has_m = "matching" in d
            ok = (status == "Optimal" and has_m) if feas else \
                 (status == "Infeasible" and not has_m)
            if ok:
                continue
            v = dict(base)
            if feas and status == "Infeasible":
                solves = obs["solves"] or []
                k = next((s for s in solves
                          if s.get("true_status") == "Infeasible"), None)
                names = ",".join(k.get("obj_names", [])) if k else "?"
                sets = ref.lex_optimal_sets(inst, ctx.crits, ctx.pc, ctx.stab,
                                            ctx.twopl, S0=feas)
                lvl = min(len(ctx.crits) - 1, len(sets) - 2) if ctx.crits else 0
                M = sets[-1][0] if sets[-1] else feas[0]
                diag = lpcheck.diagnose_false_infeasible(obs, inst, M)
                v["fingerprint"] = "false-infeasible:%s:%s" % (names, diag)
                v["what"] = ("reports Infeasible although %d feasible matchings "
                             "exist (e.g. %r); failing level objective %s; "
                             "diagnosis %s" % (len(feas), M, names, diag))
            elif not feas and status == "Optimal":
                v["fingerprint"] = "false-optimal"
                v["what"] = ("reports Optimal with matching %r although no "
                             "matching satisfies the requested constraints"
                             % (d.get("matching"),))
            else:
                v["fingerprint"] = "status:%s:matching=%s:feasible=%s" % (
                    status, has_m, bool(feas))
                v["what"] = "status %r, matching line %s, reference feasible=%s (%s text)" % (
                    status, has_m, bool(feas), which)
            tally.violation(v)
            break
    if execs:
        tally.sample({"file": ctx.text, "argv": ctx.tail,
                      "classes_explored": len(execs),
                      "status": (execs[0].short or {}).get("pulp_status"),
                      "reference_feasible_matchings": len(feas)})


INTERLEAVE_OPTS = [
    (True, False, False, ()), (True, True, False, ()), (True, False, True, ()),
    (True, True, True, ()), (True, False, False, (("maxsize", ()),)),
    (True, False, False, (("mincost", (1, 1)),)), (False, False, False, ()),
    (True, False, False, (("gre", ()),)), (True, False, False, (("lsb", ()),)),
]


def main(tier):
    t0 = time.time()
    seed = evidence.seed()
    items, desc = lp_items("C02", tier, seed)
    work = sweep.make_work(judge, conform_rate=(97 if tier == "quick" else 41),
                           seed=seed)
    tally = pool.run(work, items, chunksize=1)
    from .. import interleave
    it = sweep.interleave_items(tier, INTERLEAVE_OPTS)
    tally.merge(pool.run(interleave.work_lp(judge, PID), it, chunksize=8))
    desc.append({"family": "two Solver objects alive at once (both constructed first, solved in "
                           "either order): all ordered pairs of %d option vectors on small instances"
                           % len(INTERLEAVE_OPTS), "items": len(it)})
    c = tally.c
    coverage = {
        "states": c.get("executions", 0),
        "transitions": c.get("answers", 0),
        "traces_validated_against_impl": c.get("traces_validated", 0),
        "samples": tally.samples,
        "exhaustive": not c.get("items_capped") and not c.get("deadline_hit"),
        "instances": c.get("instances", 0),
        "items_instance_x_options": c.get("items", 0),
        "feasible_items": c.get("feasible_items", 0),
        "infeasible_items": c.get("infeasible_items", 0),
        "distinct_nontrivial": c.get("nontrivial", 0),
        "evaluations": c.get("executions", 0),
        "rule": "every instance of the listed families x every option vector; "
                "every optimal class at the last solve; non-trivial = feasible "
                "item with at least one criterion",
        "max_fanout": c.get("max_fanout", 0),
        "read_certificate_failed_items": c.get("read_certificate_failed_items", 0),
        "conformance_runs_real_cbc": c.get("conformance_runs", 0),
        "interleaved_two_solver_histories": c.get("interleaved_histories", 0),
        "sentinel_rechecks_from_non_initial_process_state": c.get("sentinel_rechecks", 0),
        "families": desc,
    }
    if not c.get("feasible_items") or not c.get("infeasible_items"):
        tally.harness_errors.append("vacuous: no feasible or no infeasible item")
    assumptions = [
        "bounded to the listed instance families (<=3 students, <=3 projects, <=3 lecturers, quotas <=3)",
        "MILP back end modelled by FakeCBC (exact integer enumeration of PuLP's MPS file); bound to CBC 2.10.3 by the conformance runs",
        "reference feasibility = exhaustive enumeration of all assignments (vf/ref.py)",
    ]
    return evidence.conclude(PID, tier, LEVEL, tally, coverage, assumptions, t0)


def replay(path):
    import json
    from .. import lprun
    with open(path) as f:
        payload = json.load(f)
    sp = sweep.replay_special(payload)
    if sp is not None:
        print("recorded:", payload.get("what"))
        print("REPRODUCED" if sp else "NOT REPRODUCED")
        return 1 if sp else 0
    obs = sweep.replay_item(payload)
    print("argv:", payload["argv"])
    print(payload["file"])
    print("recorded:", payload.get("what"))
    print("exc:", obs["exc"])
    for name, val in obs["outputs"]:
        if isinstance(val, str):
            print("--- %s\n%s" % (name, val))
    inst = I.from_json(payload["instance"])
    feas = ref.feasible_set(inst, payload["pc"], payload["stab"])
    print("reference feasible matchings:", len(feas))
    d = lprun.parse_results(lpcheck.get_output(obs, "short") or "") \
        if isinstance(lpcheck.get_output(obs, "short"), str) else {}
    bad = obs["exc"] is not None or \
        ((d.get("pulp_status") == "Optimal" and "matching" in d) != bool(feas)) or \
        (not feas and d.get("pulp_status") != "Infeasible")
    print("REPRODUCED" if bad else "NOT REPRODUCED")
    return 1 if bad else 0
