"""C16 - criteria run in position order; invalid solver option sets are
refused before the instance is read."""
from __future__ import annotations

import itertools
import json
import os
import time

from .. import evidence, lpcheck, lprun, pool, ref
from .. import instances as I

PID = "C16"
LEVEL = "exploration"
CR = lpcheck.CRITS
EXTRA_OK = {"gen": 1, "gre": 1, "mincost": 2, "minsqcost": 2, "mincostlsb": 2}
MISSING = "/nonexistent-dir-verif/no-such-instance.txt"


def build_argv(assign, order=None, extras=None, stab=False, twopl=True, fname=MISSING):
    """assign: dict crit -> position; order: flag order (list of crits)."""
    argv = ["-f", fname, "-na", "3"]
    if twopl:
        argv.append("-twopl")
    if stab:
        argv.append("-stab")
    for c in (order or [c for c in CR if c in assign]):
        argv += ["-" + c, str(assign[c])]
        if extras and c in extras:
            argv += [str(x) for x in extras[c]]
    return argv


def expected_refusal(assign, stab, twopl):
    pos = list(assign.values())
    if any(p < 1 or p > 9 for p in pos):
        return True
    if len(set(pos)) != len(pos):
        return True
    if stab and not twopl:
        return True
    return False


def parse_outcome(argv):
    """'refused' (SystemExit 2), 'accepted' (went on to read the file), or an
    exception fingerprint."""
    from matchingproblems.solver.solver import Solver
    try:
        with lprun._Quiet():
            Solver(argv)
    except SystemExit as e:
        return "refused" if e.code == 2 else "exit:%r" % (e.code,)
    except FileNotFoundError:
        return "accepted"
    except Exception as e:     # noqa
        return "exc:" + lprun.exc_fingerprint(e)
    return "accepted-and-read"


def judge_parse(assign, order, stab, twopl, tally, extras=None):
    argv = build_argv(assign, order, extras, stab, twopl)
    got = parse_outcome(argv)
    want = "refused" if expected_refusal(assign, stab, twopl) else "accepted"
    tally.inc("evaluations")
    tally.inc("expected_" + want)
    if got == want:
        return
    pos = list(assign.values())
    why = []
    if any(p < 1 or p > 9 for p in pos):
        why.append("out-of-range")
    if len(set(pos)) != len(pos):
        why.append("duplicate")
    if stab and not twopl:
        why.append("stab-without-twopl")
    tally.violation({"argv": argv, "assign": assign, "order": order, "stab": stab,
                     "twopl": twopl, "extras": extras,
                     "fingerprint": "parse:%s-but-%s:%s" % (want, got.split("@")[0],
                                                           "+".join(why) or "valid"),
                     "what": "option set %r should be %s (%s) but was %s" % (
                         argv[2:], want, why or "valid", got)})


# ---------------------------------------------------------------- work items

def work(item, tally):
    kind = item[0]
    if kind == "small":
        # every assignment of positions from DOM to a chosen subset (<=3 crits)
        subset, dom = item[1], item[2]
        for pos in itertools.product(dom, repeat=len(subset)):
            assign = dict(zip(subset, pos))
            for order in itertools.permutations(subset):
                judge_parse(assign, list(order), False, True, tally)
        # stab / twopl combinations on one assignment
        assign = {c: i + 1 for i, c in enumerate(subset)}
        for stab in (False, True):
            for twopl in (False, True):
                judge_parse(assign, None, stab, twopl, tally)
    elif kind == "perm9":
        first = item[1]
        rest = [p for p in range(1, 10) if p != first]
        for perm in itertools.permutations(rest):
            assign = dict(zip(CR, (first,) + perm))
            judge_parse(assign, None, False, True, tally)
    elif kind == "corrupt":
        subset = item[1]
        k = len(subset)
        for start in (1, 10 - k):
            base = {c: start + i for i, c in enumerate(subset)}
            rots = [list(subset[i:] + subset[:i]) for i in range(k)]
            for order in rots:
                judge_parse(base, order, False, True, tally)
            for i, c in enumerate(subset):
                for bad in [base[o] for o in subset if o != c] + [0, 10, -1, 11]:
                    a = dict(base)
                    a[c] = bad
                    judge_parse(a, None, False, True, tally)
    elif kind == "inject":
        subset = item[1]
        k = len(subset)
        for pos in itertools.permutations(range(1, 10), k):
            judge_parse(dict(zip(subset, pos)), None, False, True, tally)
    elif kind == "extras":
        judge_extras(item[1], tally)
    elif kind == "order":
        judge_order(item[1], item[2], tally)


def extras_domain(c):
    n = EXTRA_OK.get(c, 0)
    out = [()]
    if n >= 1:
        out += [(1,), (2,)]
    if n >= 2:
        out += [(1, 0), (0, 1), (2, 2)]
    return out


def judge_extras(subset, tally):
    """Extras stay with their criterion: Options_parser.optimisation_options."""
    from matchingproblems.solver.options_parser import Options_parser
    from matchingproblems.solver.enums import Optimisation_options as OO
    name_of = {OO.MAXSIZE: "maxsize", OO.MINSIZE: "minsize", OO.GENEROUS: "gen",
               OO.GREEDY: "gre", OO.MINCOST: "mincost", OO.MINSQCOST: "minsqcost",
               OO.LOADMAXBAL: "lmb", OO.LOADSUMBAL: "lsb", OO.MINCOSTLSB: "mincostlsb"}
    k = len(subset)
    for pos in itertools.permutations((2, 5, 9, 1)[:max(k, 1)] if k <= 4 else range(1, k + 1), k):
        for ex in itertools.product(*[extras_domain(c) for c in subset]):
            assign = dict(zip(subset, pos))
            extras = {c: e for c, e in zip(subset, ex) if e}
            for order in (list(subset), list(reversed(subset))):
                argv = build_argv(assign, order, extras, False, True)
                tally.inc("evaluations")
                tally.inc("nontrivial")
                op = Options_parser()
                try:
                    with lprun._Quiet():
                        op.parse(argv)
                except BaseException as e:     # noqa
                    tally.violation({"argv": argv, "fingerprint": "extras:parse-failed",
                                     "what": "valid option set %r refused: %r" % (argv[2:], e)})
                    continue
                got = []
                for opt, add in op.optimisation_options:
                    got.append((name_of.get(opt, str(opt)), tuple(add or ())))
                want = [(c, tuple(extras.get(c, ()))) for c in
                        sorted(subset, key=lambda c: assign[c])]
                if got != want:
                    tally.violation({"argv": argv, "fingerprint": "extras:order-or-arguments",
                                     "what": "optimisation_options %r, expected %r for %r" % (
                                         got, want, argv[2:])})


_CAL = {}


def calibrate(text):
    """Learn the '- optimisation:' line of each criterion from a
    single-criterion run on the current tree."""
    if _CAL:
        return _CAL
    from ..explore import Env
    for c in CR:
        obs = lprun.run_solver(text, ["-na", "3", "-twopl", "-" + c, "1"], Env([]),
                               getters=("short",))
        t = lpcheck.get_output(obs, "short")
        lines = [l for l in (t.split("\n") if isinstance(t, str) else [])
                 if l.startswith("- optimisation:")]
        if len(lines) != 1:
            raise lprun.HarnessError("calibration: criterion %s prints %r" % (c, lines))
        _CAL[c] = lines[0]
    if len(set(_CAL.values())) != len(CR):
        raise lprun.HarnessError("calibration: criterion lines not distinct %r" % _CAL)
    return _CAL


ORDER_INST = I.make3(2, 2, 2, (((1,), (2,)), ((1,), (2,))), (1, 2),
                     (((1,), (2,)), ((2,), (1,))), ((0, 1), (0, 1)),
                     ((0, 1, 1), (0, 1, 1)))


INFEAS_INST = I.make3(2, 2, 2, (((1,), (2,)), ((1,), (2,))), (1, 2),
                      (((1,), (2,)), ((2,), (1,))), ((0, 1), (2, 2)),
                      ((0, 1, 1), (0, 1, 1)))


def judge_order(subset, positions, tally):
    """With an existing file: '- optimisation:' lines appear in position order;
    on an instance without feasible matching only the prefix up to the first
    solve that does not reach Optimal (= the first criterion) is reported."""
    from ..explore import Env
    cal = calibrate(I.render(ORDER_INST))
    if ref.feasible_set(INFEAS_INST, False, False) or \
            not ref.feasible_set(ORDER_INST, False, False):
        raise lprun.HarnessError("C16 order instances: feasibility assumption wrong")
    assign = dict(zip(subset, positions))
    from . import c14
    modes = [(ORDER_INST, True, None), (INFEAS_INST, False, None),
             # a feasible instance whose FIRST underlying solve is left unsolved /
             # ends with an unknown status once (then the back end works again)
             (ORDER_INST, False, "NotSolved"), (ORDER_INST, False, "Undefined")]
    for inst, feasible, fault in modes:
      text = I.render(inst)
      for order in (list(subset), list(reversed(subset))):
        tail = ["-na", "3", "-twopl"]
        for c in order:
            tail += ["-" + c, str(assign[c])]
        plan = c14.Plan([(0, fault, False, "zero")]) if fault else None
        obs = lprun.run_solver(text, tail, Env([]), getters=("short", "long"), fault_fn=plan)
        tally.inc("evaluations")
        tally.inc("nontrivial")
        tally.inc("order_runs")
        want = [cal[c] for c in sorted(subset, key=lambda c: assign[c])]
        if not feasible:
            want = want[:1]
        for which in ("short", "long"):
            t = lpcheck.get_output(obs, which)
            if not isinstance(t, str):
                tally.violation({"argv": tail, "fingerprint": "order:exception",
                                 "what": "run failed: %r" % (obs["exc"],)})
                break
            lines = [l for l in t.split("\n") if l.startswith("- optimisation:")]

            # the whole line is compared: for generous/greedy it names the
            # cut-off rank, i.e. the (defaulted) extra argument of the criterion
            if lines != want:
                fp = "order:lines-not-in-position-order" if feasible else \
                    "order:criteria-reported-after-first-non-optimal-solve"
                tally.violation({"argv": tail, "file": text, "fingerprint": fp,
                                 "what": "%s result lists %r, expected %r for %r (%s)" % (
                                     which, lines, want, tail,
                                     "feasible instance" if feasible else
                                     ("first solve ends %s" % fault if fault else
                                      "instance without feasible matching"))})
                break


def items_for(tier):
    items = []
    dom = (-1, 0, 1, 2, 5, 9, 10, 11) if tier == "quick" else tuple(range(-1, 12))
    for k in (1, 2, 3):
        for subset in itertools.combinations(CR, k):
            if tier == "quick" and k == 3 and not (
                    "maxsize" in subset or "gen" in subset or "mincostlsb" in subset):
                continue
            items.append(("small", subset, dom))
    for first in range(1, 10):
        items.append(("perm9", first))
    for k in range(4, 10):
        for subset in itertools.combinations(CR, k):
            items.append(("corrupt", subset))
    if tier == "thorough":
        for k in range(4, 8):
            for subset in itertools.combinations(CR, k):
                items.append(("inject", subset))
    for k in (1, 2):
        for subset in itertools.combinations(CR, k):
            items.append(("extras", subset))
    items.append(("extras", ("gen", "gre", "mincost")))
    items.append(("extras", ("minsqcost", "mincostlsb", "maxsize")))
    for k in (2, 3):
        for subset in itertools.combinations(CR, k):
            if k == 3 and tier == "quick" and subset[0] not in ("maxsize", "gen"):
                continue
            for positions in ((9, 1, 5)[:k], (2, 7, 4)[:k]):
                items.append(("order", subset, positions))
    items.append(("order", CR, (9, 8, 7, 6, 5, 4, 3, 2, 1)))
    items.append(("order", CR, (3, 1, 4, 9, 5, 2, 6, 8, 7)))
    return items


def main(tier):
    t0 = time.time()
    items = items_for(tier)
    tally = pool.run(work, items, chunksize=2)
    c = tally.c
    coverage = {
        "evaluations": c.get("evaluations", 0),
        "distinct_nontrivial": c.get("expected_refused", 0) + c.get("nontrivial", 0),
        "rule": "parser level with a non-existent file (refusal is then provably before "
                "reading): every assignment of positions from the domain to every subset of <=3 "
                "criteria in every flag permutation; all 9! permutations of 1..9 over the nine "
                "criteria; every subset of 4..9 criteria with every single corruption and flag "
                "rotation; extras vectors; plus real runs checking the order of '- optimisation:' "
                "lines (line text self-calibrated from single-criterion runs); non-trivial = "
                "option sets that must be refused + ordering/extras cases",
        "samples": [{"refused": build_argv({"maxsize": 1, "gen": 1})[2:]},
                    {"accepted": build_argv({"maxsize": 9, "gen": 2}, ["gen", "maxsize"])[2:]}],
        "exhaustive": True,
        "expected_refused": c.get("expected_refused", 0),
        "expected_accepted": c.get("expected_accepted", 0),
        "order_runs": c.get("order_runs", 0),
        "position_domain": list((-1, 0, 1, 2, 5, 9, 10, 11) if tier == "quick" else range(-1, 12)),
    }
    assumptions = ["refusal = SystemExit(2) raised by Solver(argv) with a non-existent file; acceptance = FileNotFoundError",
                   "extras limited to the documented counts (gen/gre: 1, cost criteria: 2)"]
    return evidence.conclude(PID, tier, LEVEL, tally, coverage, assumptions, t0)


def replay(path):
    with open(path) as f:
        p = json.load(f)
    print(p["argv"], "->", parse_outcome(p["argv"]) if "assign" in p else "")
    print("recorded:", p["what"])
    if "assign" in p:
        from ..pool import Tally
        t = Tally()
        judge_parse(p["assign"], p["order"], p["stab"], p["twopl"], t, p.get("extras"))
        print("REPRODUCED" if t.violations else "NOT REPRODUCED")
        return 1 if t.violations else 0
    return 1
