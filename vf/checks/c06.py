"""C06 - Model.check_stability answers True exactly for assignments without a
blocking pair (and never fails); 'stability_correct' is always True."""
from __future__ import annotations

import itertools
import json
import time

from .. import evidence, lpcheck, lprun, pool, ref, sweep
from .. import instances as I
from ..families import (ALL4, optvecs, q_family, structs_small, with_profiles,
                        P3, P4)

PID = "C06"
LEVEL = "exploration"


def load_model(inst, text=None):
    from matchingproblems.solver.solver import Solver
    text = text or I.render(inst)
    path = lprun.inst_file(text)
    with lprun._Quiet():
        S = Solver(["-f", path, "-na", str(inst.kind), "-twopl"])
    return S


def to_pairs(model, M):
    out = []
    for i, p in enumerate(M):
        if p == 0:
            out.append(None)
            continue
        pr = None
        for pair in model.pairs[i]:
            if pair.projectID == p:
                pr = pair
        if pr is None:
            raise lprun.HarnessError("pair not found in model (%d,%d)" % (i + 1, p))
        out.append(pr)
    return out


def call_checker(model, M):
    try:
        r = model.check_stability(to_pairs(model, M))
        return r, None
    except lprun.HarnessError:
        raise
    except Exception as e:     # noqa
        return None, lprun.exc_fingerprint(e)


def work(inst, tally):
    text = I.render(inst)
    S = load_model(inst, text)
    tally.inc("instances")
    for M in ref.assignments(inst):
        if not ref.valid(inst, M, pc=False, lower=False):
            continue
        tally.inc("evaluations")
        bps = ref.blocking_pairs(inst, M)
        want = not bps
        for _, _, kinds in bps:
            for k in kinds:
                tally.inc("bp_" + k)
        got, exc = call_checker(S.model, M)
        if want:
            tally.inc("stable_assignments")
        else:
            tally.inc("unstable_assignments")
        if exc is None and got is want and isinstance(got, bool):
            continue
        v = {"instance": I.to_json(inst), "file": text, "assignment": list(M),
             "expected": want, "reference_blocking_pairs": [list(map(str, b)) for b in bps]}
        if exc is not None:
            v["fingerprint"] = "exc:" + exc
            v["what"] = "check_stability raised %s on assignment %r (expected %s)" % (exc, M, want)
        elif not isinstance(got, bool):
            v["fingerprint"] = "nonbool:%s" % type(got).__name__
            v["what"] = "check_stability returned %r" % (got,)
        else:
            kinds = sorted({k for _, _, ks in bps for k in ks})
            v["fingerprint"] = ("says-stable-but-blocked:" + ",".join(kinds)) if got \
                else "says-unstable-but-no-blocking-pair"
            v["what"] = "check_stability(%r) = %r, reference: blocking pairs %r" % (M, got, bps)
        tally.violation(v)
    if tally.c.get("instances", 0) % 50 == 1:
        tally.sample({"file": text, "note": "all capacity-respecting assignments checked"})


def judge_lp(ctx, execs, tally):
    """End to end: every run with -stab that prints a matching prints
    stability_correct: True (short and long)."""
    for e in execs:
        for which, d in (("short", e.short), ("long", e.long)):
            if d is None or "matching" not in d:
                continue
            tally.inc("lp_results_with_matching")
            if d.get("stability_correct") == "True":
                continue
            v = ctx.describe()
            v["choices"] = e.choices
            v["fingerprint"] = "stability_correct:%s" % d.get("stability_correct")
            v["what"] = "%s result under -stab shows stability_correct: %r for matching %r" % (
                which, d.get("stability_correct"), d.get("matching"))
            tally.violation(v)
        if e.obs["exc"] is not None and e.obs["exc"]["stage"] in ("short", "long"):
            v = ctx.describe()
            v["choices"] = e.choices
            v["fingerprint"] = "exc:" + e.obs["exc"]["fingerprint"]
            v["what"] = "getter raised under -stab: %s" % e.obs["exc"]["message"]
            tally.violation(v)


def instances_for(tier):
    desc = []

    def fam(name, it):
        lst = list(it)
        desc.append({"family": name, "instances": len(lst)})
        return lst

    out = []
    out += fam("A two-sided x P", I.family_A(True))
    out += fam("L two-sided x P", I.family_L(True))
    out += fam("Q full quotas (structures 0,2,3,4)", q_family(True, (0, 2, 3, 4)))
    out += fam("HR two-sided x P (ns+nh<=5)", I.family_HR(True))
    out += fam("W3: ids above 256 (302 projects)", I.family_W3())
    out += fam("F4: student lists over four projects (all weak orders) x 3 lecturer maps x "
               "restricted lecturer orders x {unit,cap2,lectight}", I.family_F4())
    if tier == "thorough":
        out += fam("Q full quotas (structures 1,5)", q_family(True, (1, 5)))
        out += fam("T (<=2x2x2) all structures x full quotas", I.family_T(True))
        out += fam("B two-sided x P4", I.family_B(True))
        out += fam("C 3x3 restricted", I.family_C(True))
        out += fam("HR two-sided full quotas", I.family_HR(True, full_quotas=True))
    return out, desc


def main(tier):
    t0 = time.time()
    seed = evidence.seed()
    insts, desc = instances_for(tier)
    tally = pool.run(work, insts, chunksize=50)
    # end-to-end part
    lp = [(inst, optvecs(True, ((False, True), (True, True)), [[]]))
          for inst in with_profiles(structs_small(True, I.SIZES_A, (1, 2)),
                                    None if tier == "thorough" else P4)]
    desc.append({"family": "LP end-to-end: A two-sided x P%s x pc x -stab x {none}"
                 % ("" if tier == "thorough" else "4"), "instances": len(lp)})
    t2 = pool.run(sweep.make_work(judge_lp), lp, chunksize=4)
    tally.merge(t2)
    c = tally.c
    nontriv = min(c.get("bp_3a", 0), 1) + min(c.get("bp_3b", 0), 1) + min(c.get("bp_3c", 0), 1)
    if nontriv < 3 or not c.get("stable_assignments"):
        tally.harness_errors.append("vacuous: blocking-pair kinds seen %r" % c)
    coverage = {
        "evaluations": c.get("evaluations", 0),
        "distinct_nontrivial": c.get("unstable_assignments", 0),
        "rule": "every two-sided instance of the families x every assignment of students to "
                "listed projects (or none) respecting project and lecturer upper quotas; "
                "non-trivial = assignment with at least one reference blocking pair "
                "(each assignment of each instance is distinct by construction)",
        "samples": tally.samples,
        "exhaustive": True,
        "instances": c.get("instances", 0),
        "stable_assignments": c.get("stable_assignments", 0),
        "unstable_assignments": c.get("unstable_assignments", 0),
        "blocking_pairs_by_kind": {k: c.get("bp_" + k, 0) for k in ("3a", "3b", "3c")},
        "lp_end_to_end_executions": c.get("executions", 0),
        "lp_results_with_matching": c.get("lp_results_with_matching", 0),
        "families": desc,
    }
    assumptions = [
        "reference blocking-pair definition = property statement (2 and (3a or 3b or 3c)), cross-checked against the native HR definition on 2-agent instances at setup",
        "instances loaded through the real Solver(argv) so Model is what fileIO builds",
        "bounded to the listed families",
    ]
    return evidence.conclude(PID, tier, LEVEL, tally, coverage, assumptions, t0)


def replay(path):
    with open(path) as f:
        p = json.load(f)
    inst = I.from_json(p["instance"])
    if "assignment" in p:
        S = load_model(inst, p["file"])
        M = tuple(p["assignment"])
        got, exc = call_checker(S.model, M)
        want = ref.stable(inst, M)
        print(p["file"])
        print("assignment", M, "check_stability ->", got, exc, "reference stable:", want,
              ref.blocking_pairs(inst, M))
        bad = exc is not None or got is not want
    else:
        obs = sweep.replay_item(p)
        for name, val in obs["outputs"]:
            print("---", name)
            print(val)
        bad = obs["exc"] is not None or any(
            isinstance(v, str) and "stability_correct: False" in v for _, v in obs["outputs"])
    print("REPRODUCED" if bad else "NOT REPRODUCED")
    return 1 if bad else 0
