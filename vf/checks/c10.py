"""C10 - the solver reads an instance file as the instance the file denotes."""
from __future__ import annotations

import itertools
import json
import re
import time

from .. import evidence, lpcheck, lprun, pool, ref
from .. import instances as I
from ..explore import Env

PID = "C10"
LEVEL = "exploration"

SEPS = (" ", "  ", "\t", " \t ")
TRAILS = ("", " ", "\t ", "\r")   # "\r": a file with Windows line ends


def variants(tier):
    out = []
    for sep in SEPS:
        for trail in TRAILS:
            for info in (False, True):
                for nl in (True, False):
                    for rev in (False, True):
                        out.append(dict(sep=sep, trailing=trail, info_block=info,
                                        final_newline=nl, reverse_in_group=rev))
    return out


CANON = dict(sep=" ", trailing="", info_block=False, final_newline=True,
             reverse_in_group=False)


def expected_pairs(inst, twopl, rev):
    sr = ref.srank(inst)
    lr = ref.lrank(inst) if twopl else None
    rows = []
    for i, groups in enumerate(inst.sprefs):
        row = []
        for g in groups:
            gg = list(g)[::-1] if rev else list(g)
            for p in gg:
                k = inst.lect[p - 1]
                rl = lr[k - 1][i + 1] if lr is not None else None
                row.append((i + 1, p, sr[i][p], k, rl))
        rows.append(row)
    return rows


def model_defects(S, inst, twopl, rev):
    m = S.model
    out = []
    if (m.num_students, m.num_projects, m.num_lecturers) != (inst.ns, inst.np, inst.nl):
        out.append("counts")
    if list(m.proj_lower_quotas) != [q[0] for q in inst.pq] or \
            list(m.proj_upper_quotas) != [q[1] for q in inst.pq]:
        out.append("project-quotas")
    if list(m.lec_lower_quotas) != [q[0] for q in inst.lq3] or \
            list(m.lec_upper_quotas) != [q[2] for q in inst.lq3]:
        out.append("lecturer-quotas")
    if list(m.lec_targets) != [q[1] for q in inst.lq3]:
        out.append("lecturer-targets")
    if list(m.proj_lecturers) != list(inst.lect):
        out.append("project-lecturer-assignment")
    want = expected_pairs(inst, twopl, rev)
    got = []
    for row in m.pairs:
        r = []
        for p in row:
            r.append((p.studentID, p.projectID, p.rank_student,
                      getattr(p, "lecturerID", None),
                      getattr(p, "rank_lecturer", None)))
            if p.student_index != p.studentID - 1 or p.project_index != p.projectID - 1 or \
                    getattr(p, "lecturer_index", None) != getattr(p, "lecturerID", 0) - 1:
                out.append("pair-index-vs-id")
        got.append(r)
    if got != want:
        if [[x[:2] for x in r] for r in got] != [[x[:2] for x in r] for r in want]:
            out.append("pairs-order-or-membership")
        elif [[x[2] for x in r] for r in got] != [[x[2] for x in r] for r in want]:
            out.append("student-ranks")
        elif [[x[3] for x in r] for r in got] != [[x[3] for x in r] for r in want]:
            out.append("pair-lecturer")
        else:
            out.append("lecturer-ranks" if twopl else "lecturer-rank-present-without-twopl")
    # derived lists
    allp = [p for row in m.pairs for p in row]
    try:
        for j in range(inst.np):
            if [id(p) for p in m.project_lists[j]] != [id(p) for p in allp if p.projectID == j + 1]:
                out.append("project_lists")
        for k in range(inst.nl):
            if [id(p) for p in m.lecturer_lists[k]] != [id(p) for p in allp if p.lecturerID == k + 1]:
                out.append("lecturer_lists")
        R = ref.R(inst)
        if len(m.rank_lists) != R:
            out.append("rank_lists-length")
        else:
            for r in range(R):
                if [id(p) for p in m.rank_lists[r]] != [id(p) for p in allp if p.rank_student == r + 1]:
                    out.append("rank_lists")
    except Exception as e:     # noqa
        out.append("derived-lists-exc:" + type(e).__name__)
    return sorted(set(out))


_PAIR_RE = re.compile(r"\(s(\d+) p(\d+) rs(\d+) l(\d+)(?: rl(\d+))?\)")


def debug_defects(inst, text, twopl):
    """'Model instance information' block of get_debug() after a solve."""
    tail = lpcheck.tail_for(inst, False, False, [], twopl=twopl)
    obs = lprun.run_solver(text, tail, Env([]), getters=("debug",))
    t = lpcheck.get_output(obs, "debug")
    if not isinstance(t, str):
        return ["debug-exc:" + (obs["exc"] or {}).get("fingerprint", "?")]
    if "Model instance information:\n" not in t:
        return ["debug-block-missing"]
    block = t.split("Model instance information:\n", 1)[1]
    rows = [l for l in block.split("\n") if l.strip()]
    got = []
    for l in rows:
        got.append([(int(a), int(b), int(c), int(d), int(e) if e else None)
                    for a, b, c, d, e in _PAIR_RE.findall(l)])
    want = expected_pairs(inst, twopl, False)
    return [] if got == want else ["debug-block-differs"]


def load(inst, text, twopl):
    from matchingproblems.solver.solver import Solver
    path = lprun.inst_file(text, "c10.txt")
    argv = ["-f", path, "-na", str(inst.kind)] + (["-twopl"] if twopl else [])
    with lprun._Quiet():
        return Solver(argv)


def judge(inst, kw, twopl, tally, with_debug=False):
    text = I.render(inst, **kw)
    tally.inc("evaluations")
    base = {"instance": I.to_json(inst), "file": text, "render": kw, "twopl": twopl}
    try:
        S = load(inst, text, twopl)
    except BaseException as e:     # noqa
        if isinstance(e, lprun.HarnessError):
            raise
        v = dict(base)
        v["fingerprint"] = "load-exc:" + (lprun.exc_fingerprint(e) if isinstance(e, Exception)
                                          else type(e).__name__)
        v["what"] = "loading a file of the documented grammar raised %r" % (e,)
        tally.violation(v)
        return
    d = model_defects(S, inst, twopl, kw.get("reverse_in_group", False))
    if with_debug and not d:
        d += debug_defects(inst, text, twopl)
    if d:
        v = dict(base)
        v["fingerprint"] = ",".join(d)
        v["what"] = "the Model built from the file differs from the instance the file denotes: %s" % d
        tally.violation(v)
    if any(len(g) > 1 for s in inst.sprefs for g in s) or \
            (inst.lprefs and any(len(g) > 1 for s in inst.lprefs for g in s)):
        tally.inc("nontrivial")


def work(item, tally):
    kind, inst = item[0], item[1]
    two = inst.lprefs is not None
    if kind == "canon":
        judge(inst, CANON, two, tally, with_debug=item[2])
        if two:
            judge(inst, CANON, False, tally, with_debug=item[2])
            # the same instance rendered without its second-side lists
            judge(inst._replace(lprefs=None), CANON, False, tally)
    else:
        for kw in item[2]:
            judge(inst, kw, two, tally)
            if two:
                judge(inst, kw, False, tally)
    if tally.c["evaluations"] % 5000 < 3:
        tally.sample({"file": I.render(inst, **(item[2][-1] if kind == "var" else CANON)),
                      "twopl": two})


def long_lists():
    """Ties in the middle of a list need >= 4 entries."""
    out = []
    for n in (4, 5):
        items = tuple(range(1, n + 1))
        for wo in I.weak_orders(items):
            # first side: one student ranking n projects
            out.append(I.make3(1, n, 1, (wo,), (1,) * n, (((1,),),),
                               tuple((0, 1) for _ in range(n)), ((0, 1, n),)))
            # second side: n students ranking project 1; lecturer ranks them
            out.append(I.make3(n, 1, 1, tuple(((1,),) for _ in range(n)), (1,), (wo,),
                               ((0, n),), ((0, n, n),)))
            out.append(I.make2(n, 1, tuple(((1,),) for _ in range(n)), (wo,), ((0, n),)))
    return out


def wide_ids():
    return I.family_W() + I.family_W3()


def main(tier):
    t0 = time.time()
    desc = []
    items = []

    def fam(name, lst):
        desc.append({"family": name, "items": len(lst)})
        items.extend(lst)

    var = variants(tier)
    A2 = list(I.family_A(True))
    A1 = list(I.family_A(False))
    fam("A two-sided x P, canonical rendering, loaded with and without -twopl (+debug block on profile 'cap2')",
        [("canon", x, x.pq[0] == (0, 2) and x.lq3[0] == (0, 1, 2)) for x in A2])
    fam("A one-sided x P, canonical rendering", [("canon", x, False) for x in A1])
    fam("L two-sided x {unit,l1zero}", [("canon", x, False) for x in
                                        I.family_L(True, ("unit", "l1zero"))])
    fam("HR one- and two-sided x P", [("canon", x, False) for x in
                                     list(I.family_HR(True)) + list(I.family_HR(False))])
    sub = [x for x in I.family_A(True, profiles=("cap2",))]
    fam("A two-sided x {cap2} x %d rendering variants (whitespace, trailing blanks, info block, final newline, order inside tie groups)" % len(var),
        [("var", x, var) for x in sub])
    fam("HR two-sided (ns+nh<=4) x {cap2} x rendering variants",
        [("var", x, var) for x in I.family_HR(True, sizes=I.HR_SIZES[:6]) if x.pq[0] == (0, 2)])
    fam("long lists (ties at start/middle/end, n=4,5) x variants",
        [("var", x, var[::5]) for x in long_lists()])
    fam("multi-digit ids (12 projects / 11 students)", [("canon", x, True) for x in wide_ids()])
    if tier == "thorough":
        fam("T (<=2x2x2) x full quotas canonical", [("canon", x, False) for x in I.family_T(True)])
        fam("B two-sided x {unit} x variants[::4]",
            [("var", x, var[::4]) for x in I.family_B(True, profiles=("unit",))])
    tally = pool.run(work, items, chunksize=20)
    c = tally.c
    coverage = {
        "evaluations": c.get("evaluations", 0),
        "distinct_nontrivial": c.get("nontrivial", 0),
        "rule": "abstract instances x rendering variants x {-twopl on/off}; the Model built by "
                "Solver(argv) is compared attribute by attribute with the abstract instance; "
                "non-trivial = file containing at least one tie group",
        "samples": tally.samples,
        "exhaustive": True,
        "rendering_variants": len(var),
        "families": desc,
    }
    assumptions = [
        "grammar boundary: tokens separated by >=1 blank/tab; tie groups have >=2 members with parentheses glued to the first/last member; ':' directly after the number",
        "bounded to the listed families",
    ]
    return evidence.conclude(PID, tier, LEVEL, tally, coverage, assumptions, t0)


def replay(path):
    from ..pool import Tally
    with open(path) as f:
        p = json.load(f)
    inst = I.from_json(p["instance"])
    t = Tally()
    judge(inst, p["render"], p["twopl"], t, with_debug=True)
    print(p["file"])
    for v in t.violations:
        print(v["fingerprint"], v["what"])
    print("REPRODUCED" if t.violations else "NOT REPRODUCED")
    return 1 if t.violations else 0
