"""C11 - printed statistics and listings describe the printed matching."""
from __future__ import annotations

from .. import lprun, ref, sweep
from .. import instances as I

PID = "C11"
LEVEL = "model_checking"

KEYS = ("size", "cost", "cost_sq", "degree", "profile", "max_lec_abs_diff",
        "sum_lec_abs_diff")


def stat_defects(inst, d, twopl):
    M = tuple(d["matching"])
    if len(M) != inst.ns or ref.validity_defects(inst, M, pc=True) == ["unlisted-project"]:
        return ["matching-line-not-interpretable"]   # C01's business
    try:
        st = ref.stats(inst, M, twopl)
    except KeyError:
        return ["matching-line-not-interpretable"]
    out = []
    for k in KEYS:
        if k not in d:
            out.append("stat-missing:" + k)
        elif tuple(d[k]) != tuple(st[k]) if isinstance(st[k], tuple) else d[k] != st[k]:
            out.append("stat:" + k)
    return out


def listing_defects(inst, d):
    M = tuple(d["matching"])
    students, projects, lecturers, errs = lprun.parse_long_sections(d)
    out = []
    if errs:
        return ["listing-unparseable"]
    # students: each exactly once, in order, with implied project and lecturer
    if [s[0] for s in students] != list(range(1, inst.ns + 1)):
        out.append("listing:students-not-each-once")
    else:
        for sid, pid, lid in students:
            want = M[sid - 1]
            if pid != want or (want and lid != inst.lect[want - 1]):
                out.append("listing:student-line")
    if [p[0] for p in projects] != list(range(1, inst.np + 1)):
        out.append("listing:projects-not-each-once")
    else:
        for pid, lid, studs, k, uq in projects:
            implied = [i + 1 for i, p in enumerate(M) if p == pid]
            if sorted(studs) != implied or len(studs) != len(set(studs)):
                out.append("listing:project-assignees")
            if k != len(implied):
                out.append("listing:project-occupancy")
            if uq != inst.pq[pid - 1][1]:
                out.append("listing:project-capacity")
            if lid != inst.lect[pid - 1]:
                out.append("listing:project-lecturer")
    if [l[0] for l in lecturers] != list(range(1, inst.nl + 1)):
        out.append("listing:lecturers-not-each-once")
    else:
        for lid, pairs, k, uq, target in lecturers:
            implied = sorted((i + 1, p) for i, p in enumerate(M)
                             if p and inst.lect[p - 1] == lid)
            if sorted(pairs) != implied:
                out.append("listing:lecturer-assignees")
            if k != len(implied):
                out.append("listing:lecturer-occupancy")
            if uq != inst.lq3[lid - 1][2]:
                out.append("listing:lecturer-capacity")
            if target != inst.lq3[lid - 1][1]:
                out.append("listing:lecturer-target")
    return sorted(set(out))


def judge(ctx, execs, tally):
    inst = ctx.inst
    seen = set()
    for e in execs:
        for which in ("short", "long"):
            M, d = sweep.reported(e, which)
            if M is None:
                continue
            tally.inc("result_texts_checked")
            seen.add(M)
            defects = stat_defects(inst, d, ctx.twopl)
            if which == "long" and defects != ["matching-line-not-interpretable"]:
                defects += listing_defects(inst, d)
            defects = [x for x in defects if x != "matching-line-not-interpretable"]
            if not defects:
                continue
            v = ctx.describe()
            v["choices"] = e.choices
            v["fingerprint"] = which + ":" + ",".join(sorted(set(defects)))
            v["what"] = ("%s result: printed figures do not describe matching %r: %s; "
                         "reference %r" % (which, M, defects,
                                           ref.stats(inst, M, ctx.twopl)))
            tally.violation(v)
    for M in seen:
        tally.inc("distinct_matchings")
        if any(p == 0 for p in M):
            tally.inc("with_unassigned_student")
        if not any(M):
            tally.inc("empty_matchings")
    if len(seen) > 1:
        tally.inc("nontrivial", len(seen))
    if execs and seen:
        tally.sample({"file": ctx.text, "argv": ctx.tail,
                      "matchings_checked": sorted(seen)[:6]})


def main(tier):
    from . import c02
    return sweep.run_lp_check(
        PID, LEVEL, tier, judge,
        "every instance x option vector; every optimal class at the last solve, so for "
        "no criterion every feasible matching is reported once; both result formats; "
        "non-trivial = distinct reported matchings of items with more than one",
        extra=lambda t: {k: t.c.get(k, 0) for k in
                         ("result_texts_checked", "distinct_matchings",
                          "with_unassigned_student", "empty_matchings")},
        interleave_opts=c02.INTERLEAVE_OPTS[:7],
        vacuity=lambda t: None if t.c.get("empty_matchings") and
        t.c.get("with_unassigned_student") else "no empty/partial matching seen")


def replay(path):
    p, obs = sweep.generic_replay(path)
    inst = I.from_json(p["instance"])
    from .. import lpcheck
    bad = False
    for op in ("short", "long"):
        t = lpcheck.get_output(obs, op)
        if isinstance(t, str):
            d = lprun.parse_results(t)
            if "matching" in d:
                df = stat_defects(inst, d, p["twopl"])
                if op == "long":
                    df += listing_defects(inst, d)
                print(op, "defects:", df)
                bad = bad or bool(df)
    print("REPRODUCED" if bad else "NOT REPRODUCED")
    return 1 if bad else 0
