"""C13 - ties written by the generator are read back as the same ties."""
from __future__ import annotations

import itertools
import json
import time

from .. import evidence, lprun, pool
from .. import instances as I

PID = "C13"
LEVEL = "exploration"


def perm(n):
    """A fixed non-monotone permutation of 1..n (order preservation visible)."""
    xs = list(range(1, n + 1))
    return xs[1::2] + xs[0::2][::-1]


def expected_groups(lst, ind):
    groups = []
    cur = [lst[0]]
    for i in range(1, len(lst)):
        if ind[i - 1]:
            cur.append(lst[i])
        else:
            groups.append(cur)
            cur = [lst[i]]
    groups.append(cur)
    return groups


def build_file(n, ind, side, kind):
    """Real writer -> real create_instance.  Returns (text, tokens)."""
    import numpy as np
    from matchingproblems.generator import generator_shared as gs
    lst = perm(n)
    ties = np.array(ind)
    toks = gs.create_string_pref(np.array(lst), ties)
    none1 = lambda k: [np.array([0] * k)]
    if kind == 2:
        from matchingproblems.generator.generator_ha_sm_hr import Generator_ha_sm_hr
        g = Generator_ha_sm_hr()
        if side == 1:
            # one resident ranking n hospitals
            hosp = [[1] for _ in range(n)]
            text = g.create_instance(1, n, [np.array(lst)], [ties], hosp,
                                     [np.array([0]) for _ in range(n)],
                                     [0] * n, [1] * n, "info\n")
        else:
            # n residents all ranking hospital 1; hospital 1 ranks them with ties
            res = [np.array([1]) for _ in range(n)]
            text = g.create_instance(n, 1, res, [np.array([0]) for _ in range(n)],
                                     [np.array(lst)], [ties], [0], [n], "info\n")
    else:
        from matchingproblems.generator.generator_spa import Generator_spa
        g = Generator_spa()
        if side == 1:
            text = g.create_instance(1, n, 1, [np.array(lst)], [ties], [1] * n,
                                     [0] * n, [1] * n, [[1]], [np.array([0])],
                                     [0], [1], [n], "info\n")
        else:
            res = [np.array([1]) for _ in range(n)]
            text = g.create_instance(n, 1, 1, res, [np.array([0]) for _ in range(n)],
                                     [1], [0], [n], [np.array(lst)], [ties],
                                     [0], [n], [n], "info\n")
    return text, list(toks)


def defects(n, ind, side, kind):
    from matchingproblems.solver.solver import Solver
    lst = perm(n)
    try:
        text, toks = build_file(n, ind, side, kind)
    except Exception as e:     # noqa
        return ["writer-exc:" + lprun.exc_fingerprint(e)], None
    groups = expected_groups(lst, ind)
    out = []
    want = I.render_groups(groups).split(" ")
    if toks != want:
        out.append("writer-text")
    path = lprun.inst_file(text, "ties.txt")
    try:
        with lprun._Quiet():
            S = Solver(["-f", path, "-na", str(kind), "-twopl"])
    except Exception as e:     # noqa
        return out + ["reader-exc:" + lprun.exc_fingerprint(e)], text
    rank_of = {}
    for gi, g in enumerate(groups):
        for x in g:
            rank_of[x] = gi + 1
    if side == 1:
        row = S.model.pairs[0]
        got_order = [p.projectID for p in row]
        got = {p.projectID: p.rank_student for p in row}
        if got_order != lst:
            out.append("reader-order")
    else:
        got = {row[0].studentID: row[0].rank_lecturer for row in S.model.pairs}
    if got != rank_of:
        out.append("reader-ranks")
    return out, text


def two_list_defects(n, ind1, ind2, kind):
    """Two second-side lists over the same n agents with different orders and
    different tie patterns (ranks must not bleed from one list into another)."""
    import numpy as np
    from matchingproblems.solver.solver import Solver
    l1 = perm(n)
    l2 = l1[::-1]
    res = [np.array([1, 2]) for _ in range(n)]
    zeros = [np.array([0, 0]) for _ in range(n)]
    try:
        if kind == 2:
            from matchingproblems.generator.generator_ha_sm_hr import Generator_ha_sm_hr
            text = Generator_ha_sm_hr().create_instance(
                n, 2, res, zeros, [np.array(l1), np.array(l2)],
                [np.array(ind1), np.array(ind2)], [0, 0], [n, n], "info\n")
        else:
            from matchingproblems.generator.generator_spa import Generator_spa
            text = Generator_spa().create_instance(
                n, 2, 2, res, zeros, [1, 2], [0, 0], [n, n],
                [np.array(l1), np.array(l2)], [np.array(ind1), np.array(ind2)],
                [0, 0], [n, n], [n, n], "info\n")
    except Exception as e:     # noqa
        return ["writer-exc:" + lprun.exc_fingerprint(e)], None
    path = lprun.inst_file(text, "ties2.txt")
    try:
        with lprun._Quiet():
            S = Solver(["-f", path, "-na", str(kind), "-twopl"])
    except Exception as e:     # noqa
        return ["reader-exc:" + lprun.exc_fingerprint(e)], text
    want = {}
    for h, (lst, ind) in enumerate(((l1, ind1), (l2, ind2))):
        for gi, g in enumerate(expected_groups(lst, ind)):
            for x in g:
                want[(x, h + 1)] = gi + 1
    got = {(p.studentID, p.projectID): p.rank_lecturer for row in S.model.pairs for p in row}
    return ([] if got == want else ["reader-ranks-two-lists"]), text


def two_digit_defects(t1, t2, o1, o2, kind):
    """11 x 11 with the pairs (1,11) and (11,1): second-side lists of agents 1
    and 11 both rank students 1 and 11, in orders o1/o2 with tie decisions
    t1/t2 (ids whose decimal strings concatenate equally must not collide)."""
    import numpy as np
    from matchingproblems.solver.solver import Solver
    n = 11
    res = [np.array([r]) for r in range(1, n + 1)]
    res[0] = np.array([1, 11])
    res[10] = np.array([11, 1])
    zeros = [np.array([0] * len(r)) for r in res]
    lists = [np.array([h]) for h in range(1, n + 1)]
    lists[0] = np.array([1, 11] if o1 == 0 else [11, 1])
    lists[10] = np.array([1, 11] if o2 == 0 else [11, 1])
    ties = [np.array([0]) for _ in range(n)]
    ties[0] = np.array([t1, 0])
    ties[10] = np.array([t2, 0])
    try:
        if kind == 2:
            from matchingproblems.generator.generator_ha_sm_hr import Generator_ha_sm_hr
            text = Generator_ha_sm_hr().create_instance(n, n, res, zeros, lists, ties,
                                                        [0] * n, [1] * n, "info\n")
        else:
            from matchingproblems.generator.generator_spa import Generator_spa
            text = Generator_spa().create_instance(n, n, n, res, zeros, list(range(1, n + 1)),
                                                   [0] * n, [1] * n, lists, ties,
                                                   [0] * n, [1] * n, [1] * n, "info\n")
    except Exception as e:     # noqa
        return ["writer-exc:" + lprun.exc_fingerprint(e)], None
    path = lprun.inst_file(text, "ties11.txt")
    try:
        with lprun._Quiet():
            S = Solver(["-f", path, "-na", str(kind), "-twopl"])
    except Exception as e:     # noqa
        return ["reader-exc:" + lprun.exc_fingerprint(e)], text
    want = {}
    for h in range(1, n + 1):
        lst = [int(x) for x in lists[h - 1]]
        ind = [int(x) for x in ties[h - 1]]
        for gi, g in enumerate(expected_groups(lst, ind)):
            for x in g:
                want[(x, h)] = gi + 1
    got = {(p.studentID, p.projectID): p.rank_lecturer for row in S.model.pairs for p in row}
    return ([] if got == want else ["reader-ranks-two-digit-ids"]), text


def work(item, tally):
    if item[0] == "digits":
        kind = item[1]
        for t1, t2, o1, o2 in itertools.product((0, 1), repeat=4):
            tally.inc("evaluations")
            tally.inc("nontrivial")
            d, text = two_digit_defects(t1, t2, o1, o2, kind)
            if d:
                tally.violation({"n": 11, "indicators": [t1, t2, o1, o2], "digits": True,
                                 "kind": kind, "file": text, "fingerprint": ",".join(sorted(d)),
                                 "what": "11 x 11 file, lists of agents 1 and 11 with ties %r/%r "
                                         "orders %r/%r: %s" % (t1, t2, o1, o2, d)})
        return
    if item[0] == "two":
        _, n, kind = item
        for ind1 in itertools.product((0, 1), repeat=n):
            for ind2 in itertools.product((0, 1), repeat=n):
                tally.inc("evaluations")
                tally.inc("nontrivial")
                d, text = two_list_defects(n, ind1, ind2, kind)
                if d:
                    tally.violation({"n": n, "indicators": [list(ind1), list(ind2)], "two": True,
                                     "kind": kind, "file": text,
                                     "fingerprint": ",".join(sorted(d)),
                                     "what": "two second-side lists over %d agents with tie "
                                             "indicators %r / %r (%d-agent file): %s" % (
                                                 n, ind1, ind2, kind, d)})
        return
    n, side, kind = item
    for ind in itertools.product((0, 1), repeat=n):
        tally.inc("evaluations")
        if any(ind[:-1]):
            tally.inc("nontrivial")
        d, text = defects(n, ind, side, kind)
        if d:
            tally.violation({"n": n, "indicators": list(ind), "side": side, "kind": kind,
                             "file": text, "fingerprint": ",".join(sorted(d)),
                             "what": "list %r with tie indicators %r (side %d, %d-agent file): %s"
                                     % (perm(n), ind, side, kind, d)})
    if n == 4 and side == 1 and kind == 2:
        tally.sample({"n": 4, "indicators": [1, 1, 0, 1], "file":
                      build_file(4, (1, 1, 0, 1), 1, 2)[0]})


def main(tier):
    t0 = time.time()
    N = 11 if tier == "quick" else 14
    items = [(n, side, kind) for n in range(N, 0, -1) for side in (1, 2) for kind in (2, 3)]
    N2 = 4 if tier == "quick" else 6
    items += [("two", n, kind) for n in range(N2, 1, -1) for kind in (2, 3)]
    items += [("digits", 2), ("digits", 3)]
    tally = pool.run(work, items, chunksize=1)
    c = tally.c
    coverage = {
        "evaluations": c.get("evaluations", 0),
        "distinct_nontrivial": c.get("nontrivial", 0),
        "rule": "list length n<=%d x all 2^n tie-indicator vectors x {first,second side} x "
                "{2-agent,3-agent file}, plus two second-side lists over the same agents with all pairs of "
                "tie vectors (n<=4; thorough 6); real create_string_pref -> real create_instance -> real "
                "Solver; non-trivial = vector with at least one effective tie" % N,
        "samples": tally.samples,
        "exhaustive": True,
    }
    assumptions = ["list entries are a fixed non-monotone permutation of 1..n",
                   "list lengths bounded by %d" % N]
    return evidence.conclude(PID, tier, LEVEL, tally, coverage, assumptions, t0)


def replay(path):
    with open(path) as f:
        p = json.load(f)
    if p.get("digits"):
        d, text = two_digit_defects(*p["indicators"], p["kind"])
    elif p.get("two"):
        d, text = two_list_defects(p["n"], tuple(p["indicators"][0]), tuple(p["indicators"][1]),
                                   p["kind"])
    else:
        d, text = defects(p["n"], tuple(p["indicators"]), p["side"], p["kind"])
    print(text)
    print(d)
    print("REPRODUCED" if d else "NOT REPRODUCED")
    return 1 if d else 0
