"""C04 - several criteria compose lexicographically in position order."""
from __future__ import annotations

from .. import sweep
from . import c03

PID = "C04"
LEVEL = "model_checking"


def judge(ctx, execs, tally):
    c03.judge_lex(ctx, execs, tally, "C04")


def main(tier):
    return sweep.run_lp_check(
        PID, LEVEL, tier, judge,
        "every instance x {-pc,-stab} x ordered selections of two (thorough: three) criteria, "
        "positions with gaps and flag order different from position order; every optimal "
        "class must lie in the lexicographic optimum set S_n (S_i = argopt of criterion i "
        "over S_(i-1)); non-trivial = item where criterion 2 conflicts with criterion 1 "
        "(opt_2 over S_0 differs from opt_2 over S_1 and criterion 2 still discriminates)",
        extra=lambda t: {k: t.c.get(k, 0) for k in
                         ("second_criterion_discriminates", "infeasible_items_skipped",
                          "not_optimal_status_skipped", "not_feasible_skipped",
                          "items_all_lexoptimal_matchings_returnable")},
        vacuity=lambda t: None if t.c.get("nontrivial") else "no conflicting pair found")


def replay(path):
    return c03.replay(path, "C04")
