"""C14 - a run that was cut short or proved infeasible never presents a
matching: fault enumeration at the MILP back-end seam."""
from __future__ import annotations

import itertools
import json
import time

from .. import evidence, fakecbc, lpcheck, lprun, pool, ref
from .. import instances as I
from ..explore import Env

PID = "C14"
LEVEL = "fault_enumeration"
T = 5          # seconds

KINDS = ("Infeasible", "IntegerInfeasible", "Unbounded", "Undefined", "NotSolved")
PULP_STATUS = {"Infeasible": "Infeasible", "IntegerInfeasible": "Infeasible",
               "Unbounded": "Unbounded", "Undefined": "Undefined",
               "NotSolved": "Not Solved", "Incumbent": "Optimal"}
STAT_KEYS = ("matching", "size", "cost", "cost_sq", "degree", "profile",
             "max_lec_abs_diff", "sum_lec_abs_diff", "stability_correct")

INSTS = [
    # R = 2, two students, ties, shared lecturer
    I.make3(2, 2, 2, (((1,), (2,)), ((2,), (1,))), (1, 2),
            (((1,), (2,)), ((2, 1),)), ((0, 1), (0, 1)), ((0, 1, 1), (0, 1, 2))),
    # R = 3
    I.make3(3, 3, 2, (((1,), (2,), (3,)), ((1,), (3,)), ((2, 3),)), (1, 1, 2),
            (((1,), (2,), (3,)), ((3,), (2, 1))), ((0, 1), (0, 1), (0, 2)),
            ((0, 1, 2), (0, 1, 2))),
    # 2-agent, R = 2
    I.make2(2, 2, (((1,), (2,)), ((1,), (2,))), (((2,), (1,)), ((1, 2),)), ((0, 1), (1, 1))),
    # R = 3 with a greedy rank whose optimum is 0 strictly inside the profile
    # (every second choice has capacity 0): best profile <1 0 1>
    I.make3(2, 3, 1, (((1,), (2,), (3,)), ((1,), (2,), (3,))), (1, 1, 1),
            (((1,), (2,)),), ((0, 1), (0, 0), (0, 2)), ((0, 2, 3),)),
    # infeasible without faults (lower quota cannot be met)
    I.make3(1, 2, 1, (((1,),),), (1, 1), (((1,),),), ((0, 1), (1, 1)), ((0, 1, 1),)),
]


def sequences(tier):
    singles = [[(c, ())] for c in lpcheck.CRITS]
    pairs = []
    for g in ("gen", "gre"):
        for o in lpcheck.CRITS:
            if o != g:
                pairs.append([(g, ()), (o, ())])
                pairs.append([(o, ()), (g, ())])
    uniq = []
    for p in pairs:
        if p not in uniq:
            uniq.append(p)
    triple = [[("maxsize", ()), ("gen", ()), ("gre", ())]]
    extra = [[("gen", (2,))], [("gre", (1,))], [("maxsize", ()), ("gen", (2,))]]
    return [[]] + singles + uniq + triple + extra


class Plan:
    """entries: (k, kind, persistent, values)."""

    def __init__(self, entries):
        self.entries = sorted(entries)
        self.given = {}          # solve index -> kind actually injected
        self.worst = {}

    def active(self, k):
        cur = None
        for (k0, kind, pers, values) in self.entries:
            if k0 == k or (pers and k0 <= k):
                cur = (kind, values)
        return cur

    def __call__(self, k, r, tl):
        a = self.active(k)
        if a is None:
            return None
        kind, values = a
        if kind == "Incumbent":
            if tl is None or r.status != "Optimal":
                # no incumbent exists: the stop is "no integer solution"
                kind = "NotSolved" if tl is not None else None
                if kind is None:
                    return None
            else:
                p = fakecbc.CTX.last_problem
                # a feasible point with the WORST objective value
                obs_idx, _ = fakecbc._observed_indices()
                text = fakecbc.CTX.last_text
                _, rw, _ = fakecbc.solve_text(text, obs_idx, not fakecbc.CTX.solves[-1]["maximize"])
                self.given[k] = "Incumbent"
                return {"kind": "Incumbent", "point": rw.classes[-1]}
        self.given[k] = kind
        return {"kind": kind, "values": values}


def run_plan(inst, text, crits, tl, entries):
    tail = lpcheck.tail_for(inst, False, False, crits)
    plan = Plan(entries)
    obs = lprun.run_solver(text, tail, Env([]), time_limit=tl, fault_fn=plan,
                           getters=("short", "long"))
    return tail, plan, obs


def first_failure(plan, obs):
    """(index, pulp status) of the first solve without a proven optimum."""
    for s in obs["solves"] or []:
        k = s["k"]
        if k in plan.given:
            return k, PULP_STATUS[plan.given[k]], plan.given[k]
        if s.get("answer") == "Infeasible":
            return k, "Infeasible", "true-Infeasible"
        if str(s.get("answer", "")).startswith("reject"):
            return k, "error", "reject"
    return None


def judge(inst, text, crits, tl, entries, tally, ndev):
    tail, plan, obs = run_plan(inst, text, crits, tl, entries)
    tally.inc("evaluations")
    tally.inc("schedules_%d_deviations" % ndev)
    ff = first_failure(plan, obs)
    base = {"instance": I.to_json(inst), "file": text, "argv": tail, "time_limit": tl,
            "crits": [list(c) for c in crits],
            "plan": [list(e) for e in entries]}
    if obs["exc"] is not None:
        v = dict(base)
        v["fingerprint"] = "exc:" + obs["exc"]["fingerprint"]
        v["what"] = "exception with fault plan %r: %s" % (entries, obs["exc"]["message"])
        tally.violation(v)
        return None
    if ff is None:
        return obs
    tally.inc("nontrivial")
    k, status, kind = ff
    # the run's virtual duration (harness-owned clock): a time-limit stop
    # anywhere in the run makes it exceed the limit
    clock_exceeded = tl is not None and \
        obs.get("virtual_us_after_solve", 0) > tl * 1_000_000
    for which in ("short", "long"):
        t = lpcheck.get_output(obs, which)
        d = lprun.parse_results(t)
        leaked = [x for x in STAT_KEYS if x in d]
        leaked += [s for s, lines in d["sections"].items() if lines]
        bad = None
        if leaked:
            bad = "matching-presented"
        elif tl is not None and (clock_exceeded or status == "Not Solved"):
            if d.get("timeout") != "%s seconds" % T:
                bad = "timeout-not-shown"
        else:
            if "timeout" in d:
                bad = "timeout-shown-without-reason"
            elif d.get("pulp_status") != status:
                bad = "status-not-first-failure"
        if bad:
            v = dict(base)
            where = "loop" if any(c[0] in ("gen", "gre") for c in crits) else "plain"
            v["fingerprint"] = "%s:%s:%s" % (bad, kind, where)
            v["what"] = ("first solve without proven optimum is #%d (%s); %s result shows "
                         "status %r timeout %r, leaked lines %r" % (
                             k, kind, which, d.get("pulp_status"), d.get("timeout"), leaked))
            tally.violation(v)
            break
    return obs


def fault_menu(tl, values):
    kinds = list(KINDS) + (["Incumbent"] if tl is not None else [])
    return [(kind, pers, val) for kind in kinds for pers in (False, True) for val in values]


def work(item, tally):
    ii, crits, tl, two = item
    inst = INSTS[ii]
    text = I.render(inst)
    obs = judge(inst, text, crits, tl, [], tally, 0)
    if obs is None:
        return
    K = len(obs["solves"] or [])
    tally.mx("max_solves", K)
    menu1 = fault_menu(tl, ("zero", "half", "optimal"))
    for k in range(K):
        for kind, pers, val in menu1:
            judge(inst, text, crits, tl, [(k, kind, pers, val)], tally, 1)
    if two:
        menu2 = fault_menu(tl, ("zero",))
        for k1 in range(K):
            for k2 in range(k1 + 1, K):
                for f1 in menu2:
                    for f2 in menu2:
                        judge(inst, text, crits, tl, [(k1,) + f1, (k2,) + f2], tally, 2)
    if tally.c.get("evaluations", 0) % 7 == 0:
        tally.sample({"file": text, "crits": [list(c) for c in crits], "time_limit": tl,
                      "solves": K, "example_plan": [[0, "NotSolved", True, "zero"]]})


def main(tier):
    t0 = time.time()
    items = []
    seqs = sequences(tier)
    two_quick = [[("gen", ())], [("gre", ())], [("maxsize", ()), ("gen", ())],
                 [("gre", ()), ("mincost", ())], [("maxsize", ()), ("gen", ()), ("gre", ())],
                 [("maxsize", ()), ("mincost", ())]]
    for ii in range(len(INSTS)):
        for crits in seqs:
            for tl in (None, T):
                two = (tier == "thorough") or (crits in two_quick and ii in (0, 1, 3))
                items.append((ii, crits, tl, two))
    # heavy items first
    items.sort(key=lambda it: (not it[3], -len(it[1])))
    tally = pool.run(work, items, chunksize=1)
    c = tally.c
    coverage = {
        "evaluations": c.get("evaluations", 0),
        "distinct_nontrivial": c.get("nontrivial", 0),
        "rule": "%d instances x %d criteria sequences (up to %d underlying solves) x timeLimit in "
                "{None,%ds}; at every solve position every failure kind {Infeasible, Integer "
                "infeasible, Unbounded, unknown status, Stopped on time without solution, and with a "
                "time limit Stopped on time with a non-optimal incumbent} x {transient, persistent} "
                "x value variants {zero, 0.5 on binaries, an optimal point}; all schedules with 0, 1 "
                "and (listed subset in quick, all in thorough) 2 deviations; answers are written in "
                "CBC's solution-file syntax and mapped by the real PuLP; non-trivial = schedule with "
                "at least one solve without proven optimum" % (
                    len(INSTS), len(seqs), c.get("max_solves", 0), T),
        "samples": tally.samples,
        "exhaustive": True,
        "schedules_by_deviations": {str(i): c.get("schedules_%d_deviations" % i, 0)
                                    for i in (0, 1, 2)},
        "max_solves": c.get("max_solves", 0),
    }
    assumptions = [
        "faults are injected at the process seam (pulp.apis.coin_api.subprocess) in CBC's own solution-file syntax; PuLP's parser/status mapping and all library code are real",
        "a time-limit stop advances the virtual clock by T+1us, other solves by 1 ms",
        "at most 2 deviations; fixed instance list (R=2,3; 2- and 3-agent; one infeasible)",
    ]
    return evidence.conclude(PID, tier, LEVEL, tally, coverage, assumptions, t0)


def replay(path):
    from ..pool import Tally
    with open(path) as f:
        p = json.load(f)
    inst = I.from_json(p["instance"])
    t = Tally()
    crits = [(c[0], tuple(c[1])) for c in p["crits"]]
    entries = [tuple(e) for e in p["plan"]]
    obs = judge(inst, p["file"], crits, p["time_limit"], entries, t, len(entries))
    print(p["argv"], "time_limit", p["time_limit"], "plan", entries)
    if obs:
        print([s.get("answer") for s in obs["solves"]])
        print(lpcheck.get_output(obs, "short"))
    for v in t.violations:
        print(v["fingerprint"], v["what"])
    print("REPRODUCED" if t.violations else "NOT REPRODUCED")
    return 1 if t.violations else 0
