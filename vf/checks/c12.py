"""C12 - second-side lists rank exactly the agents that find them acceptable."""
from . import c08

PID = "C12"
LEVEL = "model_checking"


def main(tier):
    return c08.main(tier, which="C12")


def replay(path):
    return c08.replay(path, which="C12")
