"""C07 - brute-force mode reports the exact optimum of every statistic."""
from __future__ import annotations

import json
import re
import time

from .. import evidence, lpcheck, lprun, pool, ref
from .. import instances as I
from ..families import q_family

PID = "C07"
LEVEL = "exploration"

KEYS = ("optimal_size", "optimal_maxsizemincost", "optimal_maxsizemindegree",
        "optimal_maxsizeminsqcost", "optimal_generousmaxprofile",
        "optimal_greedymaxprofile", "optimal_greedyprofile",
        "optimal_max_lec_abs_diff", "optimal_sum_lec_abs_diff")


def parse_bf(text):
    d = {"infeasible": False, "errors": []}
    for line in text.split("\n"):
        if line.strip() == "Infeasible":
            d["infeasible"] = True
        if ": " not in line or line.startswith("#"):
            continue
        k, v = line.split(": ", 1)
        if k not in KEYS:
            continue
        try:
            if v.startswith("("):
                a, b = v.strip("()").split(", ")
                d[k] = (int(a), int(b))
            elif v.startswith("<"):
                t = v.split()
                assert t[0] == "<" and t[-1] == ">"
                d[k] = tuple(int(x) for x in t[1:-1])
            else:
                d[k] = int(v)
        except Exception:      # noqa
            d["errors"].append(line)
    return d


def run_bf(inst, text, twopl, pc):
    tail = lpcheck.tail_for(inst, pc, False, [], twopl=twopl, bf=True)
    obs = lprun.run_solver(text, tail, None, getters=("results",))
    return tail, obs


def judge_one(inst, text, twopl, pc, tally, given=None):
    if given is None:
        tail, obs = run_bf(inst, text, twopl, pc)
    else:
        tail, obs = given
    tally.inc("evaluations")
    want = ref.bf_reference(inst, pc, twopl)
    base = {"instance": I.to_json(inst), "file": text, "argv": tail,
            "twopl": twopl, "pc": pc}
    if obs["exc"] is not None:
        v = dict(base)
        v["fingerprint"] = "exc:" + obs["exc"]["fingerprint"]
        v["what"] = "brute-force run raised %s at %s: %s" % (
            obs["exc"]["type"], obs["exc"]["stage"], obs["exc"]["message"])
        tally.violation(v)
        return
    out = lpcheck.get_output(obs, "results")
    d = parse_bf(out)
    if want is None:
        tally.inc("infeasible_instances")
        if not d["infeasible"] or any(k in d for k in KEYS):
            v = dict(base)
            v["fingerprint"] = "infeasible-not-reported"
            v["what"] = "no valid matching exists but the output is %r" % out[-300:]
            tally.violation(v)
        return
    nvalid = sum(1 for M in ref.assignments(inst) if ref.valid(inst, M, pc))
    if nvalid > 1:
        tally.inc("nontrivial")
    if nvalid == 1:
        tally.inc("only_one_valid_matching")
    if ref.R(inst) > inst.ns:
        tally.inc("maxrank_exceeds_students")
    bad = []
    if d["infeasible"]:
        bad.append("false-infeasible")
    else:
        for k in KEYS:
            if k not in d:
                bad.append("missing:" + k)
            elif d[k] != want[k]:
                bad.append(k)
        for k in ("optimal_generousmaxprofile", "optimal_greedymaxprofile",
                  "optimal_greedyprofile"):
            if k in d and len(d[k]) != ref.R(inst) and k not in bad:
                bad.append(k + ":length")
    if bad:
        v = dict(base)
        v["fingerprint"] = "wrong:" + ",".join(bad)
        v["what"] = "brute force printed %r, reference %r" % (
            {k: d.get(k) for k in KEYS}, want)
        tally.violation(v)
    if tally.c["evaluations"] % 400 == 1:
        tally.sample({"file": text, "argv": tail, "reference": {k: str(want[k]) for k in KEYS}})


def work(inst, tally):
    text = I.render(inst)
    tally.inc("instances")
    two = inst.lprefs is not None
    for pc in (False, True):
        judge_one(inst, text, two, pc, tally)
        if two:
            judge_one(inst, text, False, pc, tally)    # second-side lists ignored


def work_interleaved(item, tally):
    """Two brute-force Solvers alive at once (both constructed, then solved in
    either order), differing in -pc and/or -twopl."""
    from ..pool import Tally
    inst, (twoA, pcA), (twoB, pcB) = item
    text = I.render(inst)
    tails = [lpcheck.tail_for(inst, pc, False, [], twopl=tw, bf=True)
             for tw, pc in ((twoA, pcA), (twoB, pcB))]
    for order in ((0, 1), (1, 0)):
        obs = lprun.run_interleaved([(text, tails[0], ("results",)),
                                     (text, tails[1], ("results",))], order)
        tally.inc("interleaved_histories")
        for k, (tw, pc) in enumerate(((twoA, pcA), (twoB, pcB))):
            sub = Tally()
            judge_one(inst, text, tw, pc, sub, given=(tails[k], obs[k]))
            tally.inc("evaluations")
            for v in sub.violations:
                v = dict(v)
                v["fingerprint"] = "two-solvers-alive:" + v["fingerprint"]
                v["what"] = "with a second Solver %r constructed before this one was solved " \
                            "(order %r): %s" % (tails[1 - k], order, v["what"])
                v["interleaved_with"] = tails[1 - k]
                v["order"] = list(order)
                tally.violation(v)


def interleaved_items(tier):
    insts = [x for x in I.family_A(True, profiles=("p1lq1", "leclq1", "lq=uq2", "cap2"))
             if (x.ns, x.np) in ((2, 2), (1, 2), (2, 1))]
    if tier == "quick":
        insts = insts[::7]
    variants = [(True, False), (True, True), (False, False), (False, True)]
    return [(x, a, b) for x in insts for a in variants for b in variants if a != b]


def instances_for(tier):
    desc = []

    def fam(name, it):
        lst = list(it)
        desc.append({"family": name, "instances": len(lst)})
        return lst

    out = []
    out += fam("A one-sided x P", I.family_A(False))
    out += fam("A two-sided x P", I.family_A(True))
    out += fam("L two-sided x {unit,cap2,lectight}", I.family_L(True, ("unit", "cap2", "lectight")))
    out += fam("Q full quotas (structures 0,3)", q_family(True, (0, 3)))
    out += fam("Q3: 3 students x 2 projects x 2 lecturers, strict lists, project quotas x heterogeneous lecturer (target,uq)",
               I.family_Q3(False, maxuq=3 if tier == "thorough" else 2))
    out += fam("HR one-sided x P", I.family_HR(False, sizes=I.HR_SIZES[:6]))
    out += fam("HR two-sided x P", I.family_HR(True, sizes=I.HR_SIZES[:6]))
    hr23 = [x for x in I.family_HR(True, sizes=[(2, 3)]) if x.pq[0] in ((0, 1), (0, 2))
            and len(set(x.pq)) == 1]
    # the same structures with the first hospital closed for good (capacity 0)
    # and unit capacity elsewhere: first choices unavailable, ranks 2 and 3 decide
    hr23 += [I.make2(x.ns, x.np, x.sprefs, x.lprefs, ((0, 0),) + x.pq[1:])
             for x in hr23 if x.pq[0] == (0, 1)]
    out += fam("HR (2,3) two-sided x {unit, cap2, unit with hospital 1 at capacity 0}", hr23)
    if tier == "thorough":
        out += fam("L one/two-sided x P", list(I.family_L(False)) + list(I.family_L(True)))
        out += fam("Q full quotas (all other structures, one- and two-sided)",
                   list(q_family(True, (1, 2, 4, 5))) + list(q_family(False, range(6))))
        out += fam("B one-sided x P4", I.family_B(False))
        out += fam("B two-sided x {unit,cap2}", I.family_B(True, ("unit", "cap2")))
        out += fam("C 3x3 restricted", I.family_C(True))
        out += fam("HR (2,3),(3,2) one-sided + two-sided x P",
                   list(I.family_HR(False, sizes=I.HR_SIZES[6:])) +
                   list(I.family_HR(True, sizes=I.HR_SIZES[6:])))
    return out, desc


def main(tier):
    t0 = time.time()
    insts, desc = instances_for(tier)
    tally = pool.run(work, insts, chunksize=40)
    it = interleaved_items(tier)
    tally.merge(pool.run(work_interleaved, it, chunksize=10))
    desc.append({"family": "two brute-force Solvers alive at once, differing in -pc/-twopl, "
                           "both solve orders", "instances": len(it)})
    c = tally.c
    if not c.get("maxrank_exceeds_students") or not c.get("only_one_valid_matching") \
            or not c.get("infeasible_instances"):
        tally.harness_errors.append("vacuous: shape counters %r" % c)
    coverage = {
        "evaluations": c.get("evaluations", 0),
        "distinct_nontrivial": c.get("nontrivial", 0),
        "rule": "every instance of the families x {-pc} x {-twopl as in file, without -twopl}; "
                "Solver(argv+['-bf']).solve(); get_results(); each printed optimal_* compared with "
                "the enumeration reference; non-trivial = (instance, options) with more than one "
                "valid matching (all distinct by construction)",
        "samples": tally.samples,
        "exhaustive": True,
        "instances": c.get("instances", 0),
        "infeasible_cases": c.get("infeasible_instances", 0),
        "cases_with_only_one_valid_matching": c.get("only_one_valid_matching", 0),
        "cases_with_max_rank_above_number_of_students": c.get("maxrank_exceeds_students", 0),
        "interleaved_two_solver_histories": c.get("interleaved_histories", 0),
        "families": desc,
    }
    assumptions = ["reference optimum by enumeration of all assignments (vf/ref.py)",
                   "bounded to the listed families"]
    return evidence.conclude(PID, tier, LEVEL, tally, coverage, assumptions, t0)


def replay(path):
    from ..pool import Tally
    with open(path) as f:
        p = json.load(f)
    inst = I.from_json(p["instance"])
    t = Tally()
    tail, obs = run_bf(inst, p["file"], p["twopl"], p["pc"])
    print(p["file"], tail)
    print(obs["exc"] or lpcheck.get_output(obs, "results"))
    print("reference:", ref.bf_reference(inst, p["pc"], p["twopl"]))
    judge_one(inst, p["file"], p["twopl"], p["pc"], t)
    print("REPRODUCED" if t.violations else "NOT REPRODUCED")
    return 1 if t.violations else 0
