"""C18 - result getters are read-only and re-solving is reproducible:
explicit-state BFS over call histories on a live Solver object."""
from __future__ import annotations

import collections
import datetime
import enum
import hashlib
import json
import time

from .. import clock as vclock
from .. import evidence, fakecbc, lpcheck, lprun, pool, ref
from .. import instances as I
from ..explore import Env, HarnessError

PID = "C18"
LEVEL = "model_checking"
GETTERS = ("results", "short", "long", "debug")
GETTER_FN = {"results": "get_results", "short": "get_results_short",
             "long": "get_results_long", "debug": "get_debug"}
OPS = ("solve",) + GETTERS
TICK_S = 7          # a 'tick' lets 7 virtual seconds pass (time limit 5 s)
TL = 5
SKIP_FIELDS = {"solutionTime", "solutionCpuTime", "modifiedVariables",
               "modifiedConstraints", "resolveOK", "_vf_hash"}


def canon(o, seen, depth=0):
    import pulp
    if o is None or isinstance(o, (bool, int, float, str)):
        return o
    if isinstance(o, enum.Enum):
        return "E:" + o.name
    if isinstance(o, (datetime.datetime, datetime.timedelta)):
        return str(o)
    if depth > 12:
        return "<deep>"
    oid = id(o)
    if oid in seen:
        return "<ref %d>" % seen[oid]
    if isinstance(o, pulp.LpVariable):
        return ("V", o.name, o.lowBound, o.upBound, o.cat, o.__dict__.get("_vf_value"))
    if isinstance(o, pulp.LpProblem):
        seen[oid] = len(seen)
        return ("P", o.name, o.sense, o.status, o.sol_status,
                [(k, str(c)) for k, c in o.constraints.items()],
                str(o.objective),
                sorted((v.name, v.__dict__.get("_vf_value")) for v in o._variables))
    if isinstance(o, pulp.LpAffineExpression):
        return ("X", str(o))
    if isinstance(o, pulp.LpSolver):
        return ("S", type(o).__name__, getattr(o, "timeLimit", None), getattr(o, "msg", None))
    if isinstance(o, (list, tuple)):
        seen[oid] = len(seen)
        return [canon(x, seen, depth + 1) for x in o]
    if isinstance(o, dict):
        seen[oid] = len(seen)
        return sorted(((repr(canon(k, seen, depth + 1)), canon(v, seen, depth + 1))
                       for k, v in o.items()), key=lambda kv: kv[0])
    if hasattr(o, "__dict__"):
        seen[oid] = len(seen)
        return (type(o).__name__,
                [(k, canon(v, seen, depth + 1)) for k, v in sorted(o.__dict__.items())
                 if k not in SKIP_FIELDS])
    return "<%s>" % type(o).__name__


def digest(S):
    c = canon(S, {})
    return hashlib.blake2b(repr(c).encode(), digest_size=12).hexdigest()


def build(text, tail, hist, tl=None, probe=True):
    """Replay a history on a fresh Solver.  hist: list of (op, choice) with
    choice = index of the optimal class at the last underlying solve of a
    'solve' op (None for getters).  Returns (S, outputs, alts, exc) where
    outputs[i] = text or exception record, alts[i] = number of classes at the
    last underlying solve of op i (solve ops only)."""
    from matchingproblems.solver.solver import Solver

    class HistEnv:
        """Answers 0 at intermediate solves, the recorded class at the last
        underlying solve of each solve op (decided after the fact: the op is
        re-run if its last choice point was not the one answered)."""

        def __init__(self):
            self.trace = []
            self.plan = {}       # absolute choice-point index -> answer

        def choose(self, n, label=""):
            i = len(self.trace)
            c = self.plan.get(i, 0)
            if c >= n:
                raise HarnessError("replay divergence in history (%d >= %d)" % (c, n))
            self.trace.append((n, label, c))
            return c

    # a solve op's last choice point index is only known after running it, so
    # replay the whole history, learning the plan op by op
    plan = {}
    for attempt in range(len(hist) + 2):
        env = HistEnv()
        env.plan = dict(plan)
        path = lprun.inst_file(text, "c18.txt")
        ctx = fakecbc.CTX
        ctx.reset()
        lprun.install_all()
        fakecbc.install()
        clk = vclock.VirtualClock()
        vclock.install(clk)
        ctx.env, ctx.clock = env, clk
        ctx.read_log = None
        outputs, alts = [], []
        changed = False
        try:
            with lprun._Quiet():
                S = Solver(["-f", path] + list(tail))
            ctx.solver_obj = S
            for op, choice in hist:
                before = len(env.trace)
                try:
                    if op == "solve":
                        S.solve(timeLimit=tl)
                        out = None
                    elif op == "tick":
                        clk.advance_us((TICK_S) * 1_000_000)
                        out = None
                    elif op == "results":
                        out = S.get_results()
                    elif op == "short":
                        out = S.get_results_short()
                    elif op == "long":
                        out = S.get_results_long()
                    elif op == "debug":
                        out = S.get_debug()
                    else:
                        raise HarnessError(op)
                except HarnessError:
                    raise
                except Exception as e:     # noqa
                    out = lprun.exc_record(e, op)
                    if op == "solve":
                        lprun.wipe_tmpfiles()
                outputs.append(out)
                after = len(env.trace)
                if op == "solve" and after > before:
                    last = after - 1
                    alts.append(env.trace[last][0])
                    if choice and plan.get(last, 0) != choice:
                        plan[last] = choice
                        changed = True
                        break
                else:
                    alts.append(0 if op == "solve" else None)
            if not changed:
                dg = digest(S) + (":%d" % clk.us if tl is not None else "")
                probes = {}
                if probe:
                    for g in GETTERS:
                        try:
                            probes[g] = getattr(S, GETTER_FN[g])()
                        except HarnessError:
                            raise
                        except Exception as e:     # noqa
                            probes[g] = lprun.exc_record(e, g)
        finally:
            vclock.uninstall()
        if not changed:
            return S, outputs, alts, dg, probes
    raise HarnessError("history replay did not converge")


def crit_values(inst, crits, twopl, M):
    return [ref.criterion_key(inst, c, twopl)(M) for c in crits]


def last_solve_prefix(hist):
    li = max(i for i, (op, _) in enumerate(hist) if op == "solve")
    return hist[:li + 1]


def explore_histories(inst, text, tail, crits, pc, twopl, tally, max_depth, max_solves,
                      tl=None):
    """BFS over histories; a state is the digest of the object graph (plus the
    virtual clock when a time limit is set).  Oracle per explored history:
    (a) no getter in the history raised; (b) the texts all four getters return
    at the end of the history equal the texts they return right after the
    history's last solve; (c) after every solve: status and criterion values as
    after the first solve, matching valid."""
    seen = {}
    frontier = collections.deque()
    frontier.append([("solve", 0)])
    nstates = 0
    base = {"instance": I.to_json(inst), "file": text, "argv": list(tail), "time_limit": tl}
    probe_cache = {}
    ops = OPS + (("tick",) if tl is not None else ())
    first_probe = None
    while frontier:
        hist = frontier.popleft()
        S, outputs, alts, d, probes = build(text, tail, hist, tl)
        tally.inc("executions")
        tally.inc("transitions")
        bad = None
        for (op, _), out in zip(hist, outputs):
            if isinstance(out, dict):
                kind = "solve-exc" if op == "solve" else "getter-exc:" + op
                bad = ("%s:%s" % (kind, out["fingerprint"]),
                       "%s raised %s (history %r)" % (op, out["message"], hist))
                break
        key = tuple(last_solve_prefix(hist))
        ref_probes = probe_cache.get(key)
        if bad is None and ref_probes is None:
            # reference text of each getter: the getter called FIRST after the
            # solve, on its own fresh replay (so that one getter cannot hide a
            # change it makes to another getter's text)
            ref_probes = {}
            for g in GETTERS:
                _, outs, _, _, _ = build(text, tail, list(key) + [(g, None)], tl, probe=False)
                ref_probes[g] = outs[-1]
            probe_cache[key] = ref_probes
        if bad is None:
            for g in GETTERS:
                a, b = ref_probes[g], probes[g]
                if isinstance(b, dict):
                    bad = ("getter-exc:%s:%s" % (g, b["fingerprint"]),
                           "getter %s raised after history %r: %s" % (g, hist, b["message"]))
                    break
                if a != b:
                    since = [op for op, _ in hist[len(key):]]
                    bad = ("getter-text-changed:%s:after-%s" % (g, "+".join(sorted(set(since))) or "nothing"),
                           "getter %s returns a different text after %r than right after the solve "
                           "(history %r)" % (g, since, hist))
                    break
        if bad is None and hist[-1][0] == "solve" and tl is None:
            bad = judge_resolve(inst, crits, pc, twopl, hist, probes, first_probe)
            if first_probe is None:
                first_probe = probes
        if bad:
            v = dict(base)
            v["history"] = [list(h) for h in hist]
            v["fingerprint"], v["what"] = bad
            tally.violation(v)
        if tally.c["executions"] % 40 == 0:
            _, _, _, d2, _ = build(text, tail, hist, tl, probe=False)
            if d2 != d:
                raise HarnessError("state digest not deterministic for %r %r" % (tail, hist))
            tally.inc("determinism_rechecks")
        if d in seen:
            tally.inc("merged")
            continue
        seen[d] = hist
        nstates += 1
        if hist[-1][0] == "solve" and hist[-1][1] == 0 and alts[-1]:
            for alt in range(1, alts[-1]):
                frontier.append(hist[:-1] + [("solve", alt)])
        if len(hist) >= max_depth:
            continue
        for op in ops:
            if op == "solve" and sum(1 for o, _ in hist if o == "solve") >= max_solves:
                continue
            if op == "tick" and sum(1 for o, _ in hist if o == "tick") >= 1:
                continue
            frontier.append(hist + [(op, 0 if op == "solve" else None)])
    tally.inc("states", nstates)
    if nstates > 1:
        tally.inc("nontrivial")
    if tally.c.get("executions", 0) and len(tally.samples) < 2:
        tally.sample({"file": text, "argv": list(tail), "time_limit": tl,
                      "states": nstates, "last_history": [list(h) for h in hist]})
    return nstates


def judge_resolve(inst, crits, pc, twopl, hist, probes, first):
    """After every solve: same status, same criterion values, valid matching."""
    out = probes["short"]
    if not isinstance(out, str):
        return None
    d = lprun.parse_results(out)
    status = d.get("pulp_status")
    M = tuple(d["matching"]) if "matching" in d else None
    if M is not None and ref.validity_defects(inst, M, pc):
        return ("resolve-invalid-matching",
                "after history %r the matching %r is not valid" % (hist, M))
    if first is None or not isinstance(first.get("short"), str):
        return None
    d0 = lprun.parse_results(first["short"])
    if d0.get("pulp_status") != status:
        return ("resolve-status-changed", "status %r after history %r, %r after the first solve"
                % (status, hist, d0.get("pulp_status")))
    if M is not None and "matching" in d0:
        v0 = crit_values(inst, crits, twopl, tuple(d0["matching"]))
        v1 = crit_values(inst, crits, twopl, M)
        if v0 != v1:
            return ("resolve-criterion-value-changed",
                    "criterion values %r after history %r, %r after the first solve" % (v1, hist, v0))
    return None


INSTS = [
    ("shared-lecturer", I.make3(2, 2, 1, (((1,), (2,)), ((1, 2),)), (1, 1),
                                (((1,), (2,)),), ((0, 1), (0, 1)), ((0, 1, 2),))),
    ("two-lecturers-ties", I.make3(2, 2, 2, (((1,), (2,)), ((2,), (1,))), (1, 2),
                                   (((1, 2),), ((2,), (1,))), ((0, 1), (0, 2)),
                                   ((0, 1, 1), (0, 1, 2)))),
    ("infeasible", I.make3(1, 2, 1, (((1,),),), (1, 1), (((1,),),), ((0, 1), (1, 1)),
                           ((0, 1, 1),))),
    ("zero-capacity-project", I.make3(2, 2, 1, (((1,), (2,)), ((2,), (1,))), (1, 1),
                                      (((2,), (1,)),), ((0, 0), (0, 2)), ((0, 1, 2),))),
    ("hr", I.make2(2, 2, (((1,), (2,)), ((1,),)), (((2,), (1,)), ((1,),)), ((0, 1), (0, 1)))),
    ("lower-quota", I.make3(2, 2, 2, (((1,), (2,)), ((1,), (2,))), (1, 2),
                            (((1,), (2,)), ((1,), (2,))), ((0, 2), (1, 1)),
                            ((0, 1, 2), (0, 1, 1)))),
]

TEN = I.make2(2, 10, (tuple((p,) for p in (3, 1, 2, 4, 5, 6, 7, 8, 9, 10)), ((10,), (3,))),
              tuple(((1,),) if h not in (3, 10) else (((2,), (1,)) if h == 10 else ((1,), (2,)))
                    for h in range(1, 11)),
              tuple((0, 0) if h in (1, 2, 3) else (0, 1) for h in range(1, 11)))
# a preference list of ten entries (rank 10 exists) whose first three choices
# have capacity 0, so the assigned entry is not the first one; few optimal classes
OPTS_TEN = [
    (False, False, (("maxsize", ()), ("mincost", ())), None),
    (False, True, (("maxsize", ()),), None),
    (False, True, (("gen", ()),), None),
]

OPTS = [
    # (pc, stab, crits, time limit)
    (False, False, (), None),
    (False, False, (("maxsize", ()),), None),
    (False, False, (("maxsize", ()), ("mincost", ())), None),
    (False, False, (("lsb", ()),), None),
    (True, False, (), None),
    (True, False, (("minsize", ()),), None),
    (False, True, (("maxsize", ()),), None),
    (True, True, (("gen", ()), ("lmb", ())), None),
    (False, False, (("maxsize", ()), ("mincost", (1, 3))), None),
    (False, False, (("maxsize", ()), ("minsqcost", (2, 1))), None),
    (False, False, (("maxsize", ()), ("lmb", ())), None),
    (False, False, (("lmb", ()), ("gre", (1,))), None),
    (False, False, (("mincostlsb", (1, 2)),), None),
    (False, False, (("maxsize", ()),), TL),
    (True, False, (("gen", ()),), TL),
    # second-side lists present in the file but -twopl not given
    (False, False, (("maxsize", ()), ("mincost", ())), None, False),
    (True, False, (), None, False),
]

# option sets run on the broader instance set with a smaller depth
OPTS_WIDE = [
    (False, False, (("maxsize", ()), ("mincost", (1, 3))), None),
    (False, False, (("maxsize", ()), ("mincost", (3, 1))), None),
    (False, False, (("maxsize", ()), ("minsqcost", (1, 2))), None),
    (False, False, (("maxsize", ()), ("lmb", ())), None),
    (False, False, (("lmb", ()),), None),
    (False, False, (("maxsize", ()), ("mincostlsb", (1, 2))), None),
    (False, False, (("maxsize", ()), ("gen", (2,))), None),
    (True, True, (("maxsize", ()), ("gre", (1,))), None),
    (False, False, (), TL),
    (False, False, (("maxsize", ()), ("mincost", (1, 1))), None, False),
]


def wide_instances():
    out = []
    for ns, np_, nl, sp, le, lp in I.Q_STRUCTS:
        for name, pq, lq3 in I.quota_profiles3(ns, np_, nl, le):
            if name in ("unit", "cap2", "p1zero", "leclq1", "lq=uq2"):
                out.append(I.make3(ns, np_, nl, sp, le, lp, pq, lq3))
        if nl == 2:
            # non-ascending lecturer upper quotas / targets
            out.append(I.make3(ns, np_, nl, sp, le, lp, tuple((0, 2) for _ in range(np_)),
                               ((0, 1, 2), (0, 0, 1))))
            out.append(I.make3(ns, np_, nl, sp, le, lp, tuple((0, 2) for _ in range(np_)),
                               ((1, 2, 2), (0, 1, 1))))
    for x in I.family_HR(True, sizes=[(2, 2)]):
        if x.pq in (((1, 2), (1, 2)), ((0, 2), (0, 2))) and \
                all(len(g) == 1 for s in x.sprefs for g in s) and \
                all(len(s) == 2 for s in x.sprefs):
            out.append(x)
    # 3 residents, 2 hospitals with lower quotas: weighted costs discriminate
    sp = (((1,), (2,)), ((1,), (2,)), ((2,), (1,)))
    for lp in ((((3,), (1,), (2,)), ((2,), (3,), (1,))), (((1,), (2,), (3,)), ((1,), (3,), (2,)))):
        out.append(I.make2(3, 2, sp, lp, ((2, 3), (0, 2))))
        out.append(I.make2(3, 2, sp, lp, ((1, 2), (1, 2))))
    return out


WIDE = wide_instances()


def work(item, tally):
    kind, ii, oi, depth, nsolves = item
    if kind == "base":
        name, inst = INSTS[ii]
        opt = OPTS[oi]
    elif kind == "ten":
        inst = TEN
        opt = OPTS_TEN[oi]
    else:
        inst = WIDE[ii]
        opt = OPTS_WIDE[oi]
    pc, stab, crits, tl = opt[:4]
    twopl = opt[4] if len(opt) > 4 else True
    R = ref.R(inst)
    crits = tuple(c for c in crits if not (c[0] == "gen" and c[1] and c[1][0] > R))
    text = I.render(inst)
    tail = lpcheck.tail_for(inst, pc, stab, list(crits), twopl=twopl)
    explore_histories(inst, text, tail, list(crits), pc, twopl, tally, depth, nsolves, tl)
    tally.inc("items")


def main(tier):
    t0 = time.time()
    depth, nsolves = (6, 3) if tier == "quick" else (7, 4)
    wdepth, wsolves = (4, 2) if tier == "quick" else (5, 3)
    items = [("base", ii, oi, depth, nsolves) for ii in range(len(INSTS))
             for oi in range(len(OPTS))]
    items += [("wide", ii, oi, wdepth, wsolves) for ii in range(len(WIDE))
              for oi in range(len(OPTS_WIDE))]
    items += [("ten", 0, oi, wdepth + 1, wsolves) for oi in range(len(OPTS_TEN))]
    tally = pool.run(work, items, chunksize=1)
    c = tally.c
    coverage = {
        "states": c.get("states", 0),
        "transitions": c.get("transitions", 0),
        "traces_validated_against_impl": c.get("executions", 0),
        "samples": tally.samples,
        "exhaustive": True,
        "evaluations": c.get("executions", 0),
        "distinct_nontrivial": c.get("nontrivial", 0),
        "rule": "explicit-state BFS over call histories {solve,get_results,get_results_short,"
                "get_results_long,get_debug}* (plus one 'tick' = 7 virtual seconds when a 5 s time "
                "limit is set) starting with solve; %d base instances x %d option sets at depth <= "
                "%d with <= %d solves, %d further instances x %d option sets (weighted criteria, "
                "load criteria, non-ascending lecturer quotas) at depth <= %d with <= %d solves; a "
                "state is the digest of the whole Solver/Model object graph reached by replaying the "
                "history on a fresh real Solver; every solve branches over every optimal class the "
                "back end may return; at the end of every history all four getters are probed and "
                "compared with their texts right after the history's last solve; "
                "traces_validated_against_impl = histories executed on the real implementation "
                "(every explored transition is a real call); non-trivial = items with more than "
                "one distinct state" % (len(INSTS), len(OPTS), depth, nsolves, len(WIDE),
                                        len(OPTS_WIDE), wdepth, wsolves),
        "histories_merged_into_known_states": c.get("merged", 0),
        "digest_determinism_rechecks": c.get("determinism_rechecks", 0),
        "items": c.get("items", 0),
    }
    assumptions = [
        "LP mode; back end = FakeCBC (every optimal class at the last underlying solve of each solve call)",
        "state digest covers the Solver/Options_parser/Model/LP_Solver/LpProblem object graph except PuLP's wall-clock fields; with a time limit the virtual clock is part of the state",
        "the clock is owned in every matchingproblems module that names `datetime`; re-solving under a time limit is not judged (time_start is taken at construction)",
        "depth and number of solves bounded as stated",
    ]
    return evidence.conclude(PID, tier, LEVEL, tally, coverage, assumptions, t0)


def replay(path):
    with open(path) as f:
        p = json.load(f)
    hist = [(h[0], h[1]) for h in p["history"]]
    tl = p.get("time_limit")
    S, outputs, alts, d, probes = build(p["file"], p["argv"], hist, tl)
    ref_probes = {}
    for g in GETTERS:
        _, outs, _, _, _ = build(p["file"], p["argv"], last_solve_prefix(hist) + [(g, None)], tl,
                                 probe=False)
        ref_probes[g] = outs[-1]
    print(p["argv"], "time_limit", tl)
    print(p["file"])
    print("history:", hist)
    bad = False
    for (op, ch), out in zip(hist, outputs):
        if isinstance(out, dict):
            print("op", op, "raised", out)
            bad = True
    for g in GETTERS:
        if probes[g] != ref_probes[g] or isinstance(probes[g], dict):
            print("--- getter", g, "right after the last solve:")
            print(ref_probes[g])
            print("--- getter", g, "at the end of the history:")
            print(probes[g])
            bad = True
    print("recorded:", p["fingerprint"], p["what"])
    bad = bad or p["fingerprint"].startswith("resolve")
    print("REPRODUCED" if bad else "NOT REPRODUCED")
    return 1 if bad else 0
