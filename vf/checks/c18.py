"""C18 - result getters are read-only and re-solving is reproducible:
explicit-state BFS over call histories on a live Solver object."""
from __future__ import annotations

import collections
import datetime
import enum
import hashlib
import json
import time

from .. import clock as vclock
from .. import evidence, fakecbc, lpcheck, lprun, pool, ref
from .. import instances as I
from ..explore import Env, HarnessError

PID = "C18"
LEVEL = "model_checking"
GETTERS = ("results", "short", "long", "debug")
OPS = ("solve",) + GETTERS
SKIP_FIELDS = {"solutionTime", "solutionCpuTime", "modifiedVariables",
               "modifiedConstraints", "resolveOK", "_vf_hash"}


def canon(o, seen, depth=0):
    import pulp
    if o is None or isinstance(o, (bool, int, float, str)):
        return o
    if isinstance(o, enum.Enum):
        return "E:" + o.name
    if isinstance(o, (datetime.datetime, datetime.timedelta)):
        return str(o)
    if depth > 12:
        return "<deep>"
    oid = id(o)
    if oid in seen:
        return "<ref %d>" % seen[oid]
    if isinstance(o, pulp.LpVariable):
        return ("V", o.name, o.lowBound, o.upBound, o.cat, o.__dict__.get("_vf_value"))
    if isinstance(o, pulp.LpProblem):
        seen[oid] = len(seen)
        return ("P", o.name, o.sense, o.status, o.sol_status,
                [(k, str(c)) for k, c in o.constraints.items()],
                str(o.objective),
                sorted((v.name, v.__dict__.get("_vf_value")) for v in o._variables))
    if isinstance(o, pulp.LpAffineExpression):
        return ("X", str(o))
    if isinstance(o, pulp.LpSolver):
        return ("S", type(o).__name__, getattr(o, "timeLimit", None), getattr(o, "msg", None))
    if isinstance(o, (list, tuple)):
        seen[oid] = len(seen)
        return [canon(x, seen, depth + 1) for x in o]
    if isinstance(o, dict):
        seen[oid] = len(seen)
        return sorted(((repr(canon(k, seen, depth + 1)), canon(v, seen, depth + 1))
                       for k, v in o.items()), key=lambda kv: kv[0])
    if hasattr(o, "__dict__"):
        seen[oid] = len(seen)
        return (type(o).__name__,
                [(k, canon(v, seen, depth + 1)) for k, v in sorted(o.__dict__.items())
                 if k not in SKIP_FIELDS])
    return "<%s>" % type(o).__name__


def digest(S):
    c = canon(S, {})
    return hashlib.blake2b(repr(c).encode(), digest_size=12).hexdigest()


def build(text, tail, hist):
    """Replay a history on a fresh Solver.  hist: list of (op, choice) with
    choice = index of the optimal class at the last underlying solve of a
    'solve' op (None for getters).  Returns (S, outputs, alts, exc) where
    outputs[i] = text or exception record, alts[i] = number of classes at the
    last underlying solve of op i (solve ops only)."""
    from matchingproblems.solver.solver import Solver

    class HistEnv:
        """Answers 0 at intermediate solves, the recorded class at the last
        underlying solve of each solve op (decided after the fact: the op is
        re-run if its last choice point was not the one answered)."""

        def __init__(self):
            self.trace = []
            self.plan = {}       # absolute choice-point index -> answer

        def choose(self, n, label=""):
            i = len(self.trace)
            c = self.plan.get(i, 0)
            if c >= n:
                raise HarnessError("replay divergence in history (%d >= %d)" % (c, n))
            self.trace.append((n, label, c))
            return c

    # a solve op's last choice point index is only known after running it, so
    # replay the whole history, learning the plan op by op
    plan = {}
    for attempt in range(len(hist) + 2):
        env = HistEnv()
        env.plan = dict(plan)
        path = lprun.inst_file(text, "c18.txt")
        ctx = fakecbc.CTX
        ctx.reset()
        lprun.install_all()
        fakecbc.install()
        clk = vclock.VirtualClock()
        vclock.install(clk)
        ctx.env, ctx.clock = env, clk
        ctx.read_log = None
        outputs, alts = [], []
        changed = False
        try:
            with lprun._Quiet():
                S = Solver(["-f", path] + list(tail))
            ctx.solver_obj = S
            for op, choice in hist:
                before = len(env.trace)
                try:
                    if op == "solve":
                        S.solve()
                        out = None
                    elif op == "results":
                        out = S.get_results()
                    elif op == "short":
                        out = S.get_results_short()
                    elif op == "long":
                        out = S.get_results_long()
                    elif op == "debug":
                        out = S.get_debug()
                    else:
                        raise HarnessError(op)
                except HarnessError:
                    raise
                except Exception as e:     # noqa
                    out = lprun.exc_record(e, op)
                    if op == "solve":
                        lprun.wipe_tmpfiles()
                outputs.append(out)
                after = len(env.trace)
                if op == "solve" and after > before:
                    last = after - 1
                    alts.append(env.trace[last][0])
                    if choice and plan.get(last, 0) != choice:
                        plan[last] = choice
                        changed = True
                        break
                else:
                    alts.append(0 if op == "solve" else None)
        finally:
            vclock.uninstall()
        if not changed:
            return S, outputs, alts
    raise HarnessError("history replay did not converge")


def crit_values(inst, crits, twopl, M):
    return [ref.criterion_key(inst, c, twopl)(M) for c in crits]


def explore_histories(inst, text, tail, crits, pc, twopl, tally, max_depth, max_solves):
    """BFS over histories; returns number of states."""
    seen = {}
    frontier = collections.deque()
    h0 = [("solve", 0)]
    frontier.append(h0)
    nstates = 0
    base = {"instance": I.to_json(inst), "file": text, "argv": list(tail)}
    first = True
    while frontier:
        hist = frontier.popleft()
        S, outputs, alts = build(text, tail, hist)
        tally.inc("executions")
        tally.inc("transitions")
        # ---- oracle on this history
        bad = judge_history(inst, crits, pc, twopl, hist, outputs)
        if bad:
            v = dict(base)
            v["history"] = [list(h) for h in hist]
            v["fingerprint"], v["what"] = bad
            tally.violation(v)
        if first:
            first = False
            if tally.c.get("executions", 0) % 5 == 1:
                tally.sample({"file": text, "argv": list(tail),
                              "history": [list(h) for h in hist]})
        d = digest(S)
        if tally.c["executions"] % 25 == 0:
            S2, _, _ = build(text, tail, hist)
            if digest(S2) != d:
                raise HarnessError("state digest not deterministic for %r %r" % (tail, hist))
            tally.inc("determinism_rechecks")
        if d in seen:
            tally.inc("merged")
            continue
        seen[d] = hist
        nstates += 1
        # alternatives of the last solve op (other optimal classes)
        li = max(i for i, (op, _) in enumerate(hist) if op == "solve")
        if hist[-1][0] == "solve" and hist[-1][1] == 0 and alts[-1]:
            for alt in range(1, alts[-1]):
                frontier.append(hist[:-1] + [("solve", alt)])
        if len(hist) >= max_depth:
            continue
        for op in OPS:
            if op == "solve" and sum(1 for o, _ in hist if o == "solve") >= max_solves:
                continue
            frontier.append(hist + [(op, 0 if op == "solve" else None)])
    tally.inc("states", nstates)
    if nstates > 1:
        tally.inc("nontrivial")
    return nstates


def judge_history(inst, crits, pc, twopl, hist, outputs):
    """Return (fingerprint, what) or None."""
    since = {}          # getter -> text since the last solve
    first_status = None
    first_vals = None
    for i, ((op, _), out) in enumerate(zip(hist, outputs)):
        if op == "solve":
            since = {}
            if isinstance(out, dict):
                return ("solve-exc:" + out["fingerprint"],
                        "solve #%d raised %s" % (i, out["message"]))
            continue
        if isinstance(out, dict):
            return ("getter-exc:%s:%s" % (op, out["fingerprint"]),
                    "getter %s raised after a completed solve: %s (history %r)" % (
                        op, out["message"], hist[:i + 1]))
        if op in since and since[op] != out:
            return ("getter-not-idempotent:" + op,
                    "getter %s returned different texts between two solves (history %r)" % (
                        op, hist[:i + 1]))
        since[op] = out
        if op in ("results", "short", "long"):
            d = lprun.parse_results(out)
            status = d.get("pulp_status")
            M = tuple(d["matching"]) if "matching" in d else None
            if M is not None and ref.validity_defects(inst, M, pc):
                return ("resolve-invalid-matching",
                        "after history %r the matching %r is not valid" % (hist[:i + 1], M))
            vals = crit_values(inst, crits, twopl, M) if M is not None and \
                not ref.validity_defects(inst, M, pc) else None
            if first_status is None:
                first_status, first_vals = status, vals
            else:
                if status != first_status:
                    return ("resolve-status-changed",
                            "status %r after re-solve, %r after the first solve (history %r)" % (
                                status, first_status, hist[:i + 1]))
                if vals != first_vals:
                    return ("resolve-criterion-value-changed",
                            "criterion values %r after re-solve, %r after the first solve "
                            "(history %r)" % (vals, first_vals, hist[:i + 1]))
    return None


INSTS = [
    ("shared-lecturer", I.make3(2, 2, 1, (((1,), (2,)), ((1, 2),)), (1, 1),
                                (((1,), (2,)),), ((0, 1), (0, 1)), ((0, 1, 2),))),
    ("two-lecturers-ties", I.make3(2, 2, 2, (((1,), (2,)), ((2,), (1,))), (1, 2),
                                   (((1, 2),), ((2,), (1,))), ((0, 1), (0, 2)),
                                   ((0, 1, 1), (0, 1, 2)))),
    ("infeasible", I.make3(1, 2, 1, (((1,),),), (1, 1), (((1,),),), ((0, 1), (1, 1)),
                           ((0, 1, 1),))),
    ("zero-capacity-project", I.make3(2, 2, 1, (((1,), (2,)), ((2,), (1,))), (1, 1),
                                      (((2,), (1,)),), ((0, 0), (0, 2)), ((0, 1, 2),))),
    ("hr", I.make2(2, 2, (((1,), (2,)), ((1,),)), (((2,), (1,)), ((1,),)), ((0, 1), (0, 1)))),
    ("lower-quota", I.make3(2, 2, 2, (((1,), (2,)), ((1,), (2,))), (1, 2),
                            (((1,), (2,)), ((1,), (2,))), ((0, 2), (1, 1)),
                            ((0, 1, 2), (0, 1, 1)))),
]

OPTS = [
    (False, False, ()),
    (False, False, (("maxsize", ()),)),
    (False, False, (("maxsize", ()), ("mincost", ()))),
    (False, False, (("lsb", ()),)),
    (True, False, ()),
    (True, False, (("minsize", ()),)),
    (False, True, (("maxsize", ()),)),
    (True, True, (("gen", ()), ("lmb", ()))),
]


def work(item, tally):
    ii, oi, depth, nsolves = item
    name, inst = INSTS[ii]
    pc, stab, crits = OPTS[oi]
    text = I.render(inst)
    tail = lpcheck.tail_for(inst, pc, stab, list(crits))
    explore_histories(inst, text, tail, list(crits), pc, True, tally, depth, nsolves)
    tally.inc("items")


def main(tier):
    t0 = time.time()
    depth, nsolves = (6, 3) if tier == "quick" else (7, 4)
    items = [(ii, oi, depth, nsolves) for ii in range(len(INSTS)) for oi in range(len(OPTS))]
    tally = pool.run(work, items, chunksize=1)
    c = tally.c
    coverage = {
        "states": c.get("states", 0),
        "transitions": c.get("transitions", 0),
        "traces_validated_against_impl": c.get("executions", 0),
        "samples": tally.samples,
        "exhaustive": True,
        "evaluations": c.get("executions", 0),
        "distinct_nontrivial": c.get("nontrivial", 0),
        "rule": "explicit-state BFS over call histories {solve,get_results,get_results_short,"
                "get_results_long,get_debug}* starting with solve, depth <= %d, <= %d solves, on "
                "%d instances x %d option sets; a state is the digest of the whole Solver/Model "
                "object graph reached by replaying the history on a fresh real Solver; every solve "
                "branches over every optimal class the back end may return; "
                "traces_validated_against_impl = histories executed on the real implementation "
                "(every explored transition is a real call); non-trivial = items with more than "
                "one distinct state" % (depth, nsolves, len(INSTS), len(OPTS)),
        "histories_merged_into_known_states": c.get("merged", 0),
        "digest_determinism_rechecks": c.get("determinism_rechecks", 0),
        "items": c.get("items", 0),
    }
    assumptions = [
        "LP mode only; timeLimit=None; back end = FakeCBC (every optimal class at the last underlying solve of each solve call)",
        "state digest covers the Solver/Options_parser/Model/LP_Solver/LpProblem object graph except PuLP's wall-clock fields",
        "depth and number of solves bounded as stated",
    ]
    return evidence.conclude(PID, tier, LEVEL, tally, coverage, assumptions, t0)


def replay(path):
    with open(path) as f:
        p = json.load(f)
    inst = I.from_json(p["instance"])
    hist = [(h[0], h[1]) for h in p["history"]]
    S, outputs, alts = build(p["file"], p["argv"], hist)
    print(p["argv"])
    print(p["file"])
    for (op, ch), out in zip(hist, outputs):
        print("---", op, ch)
        print(out)
    print("recorded:", p["fingerprint"], p["what"])
    bad = any(isinstance(o, dict) for o in outputs) or "not-idempotent" in p["fingerprint"] \
        or "resolve" in p["fingerprint"]
    print("REPRODUCED" if bad else "NOT REPRODUCED")
    return 1 if bad else 0
