"""C17 - popularity skew is linear with the requested ratio."""
from __future__ import annotations

import json
import time
from fractions import Fraction

from .. import evidence, pool

PID = "C17"
LEVEL = "exploration"
TOL = 1e-12


def skews(tier):
    s = set()
    k = 120 if tier == "quick" else 600
    for i in range(k + 1):          # geometric grid 0.01 .. 1000
        s.add(10 ** (-2 + 5 * i / k))
    for i in range(1, 51):
        s.add(float(i))
    for e in (1e-3, 1e-6, 1e-9, 0.1, 0.5):
        s.add(1 + e)
        s.add(1 - e)
    s.update((0.001, 0.01, 0.25, 0.5, 2.5, 1e4, 1e6))
    return sorted(s)


def defects(n, s):
    import numpy as np
    from matchingproblems.generator.generator_shared import create_linear_distribution
    try:
        w = create_linear_distribution(n, s)
        w = [float(x) for x in w]
    except Exception as e:     # noqa
        return ["exc:" + type(e).__name__], None
    out = []
    if len(w) != n:
        return ["length"], w
    fs = Fraction(s)
    raw = [1 + Fraction(i) * (fs - 1) / (n - 1) for i in range(n)] if n > 1 else [Fraction(1)]
    tot = sum(raw)
    ref = [float(x / tot) for x in raw]
    if any(not (x > 0) for x in w):
        out.append("non-positive-weight")
    if abs(sum(w) - 1.0) > 1e-9:
        out.append("sum-not-one")
    if any(abs(a - b) > TOL * max(1.0, abs(b)) + 1e-15 for a, b in zip(w, ref)):
        out.append("not-the-arithmetic-progression")
    if n > 1:
        scale = max(abs(x) for x in w)
        if abs(w[-1] - s * w[0]) > 1e-9 * max(scale, abs(s * w[0])):
            out.append("ratio-last-over-first")
        d = [w[i + 1] - w[i] for i in range(n - 1)]
        if any(abs(x - d[0]) > 1e-9 * scale for x in d):
            out.append("first-difference-not-constant")
    else:
        if w != [1.0]:
            out.append("single-agent-weight-not-one")
    try:
        np.random.seed(1)
        np.random.choice(np.arange(1, n + 1), 1, replace=False, p=np.array(w))
    except Exception as e:     # noqa
        out.append("numpy-rejects-as-p:" + type(e).__name__)
    return out, w


def work(item, tally):
    n, ss = item
    for s in ss:
        tally.inc("evaluations")
        if n > 1 and s != 1.0:
            tally.inc("nontrivial")
        d, w = defects(n, s)
        if d:
            tally.violation({"n": n, "skew": s, "weights": w,
                             "fingerprint": ",".join(sorted(d)),
                             "what": "create_linear_distribution(%d, %r) = %r: %s" % (n, s, w, d)})
    if n in (1, 4):
        tally.sample({"n": n, "skew": ss[len(ss) // 2],
                      "weights": defects(n, ss[len(ss) // 2])[1]})


def ref_weights(n, s):
    fs = Fraction(s)
    raw = [1 + Fraction(i) * (fs - 1) / (n - 1) for i in range(n)] if n > 1 else [Fraction(1)]
    tot = sum(raw)
    return [float(x / tot) for x in raw]


def work_usage(a, tally):
    """'used as sampling weights': every first-side list of a generator run is
    drawn by a weighted draw without replacement whose weights are the
    reference distribution for (number of rankable agents, skew)."""
    from .. import genvectors, rngenv
    from ..explore import Env
    argv = genvectors.argv_of(a)
    res = rngenv.run_generator(argv, Env([]), tag="c17")
    tally.inc("evaluations")
    tally.inc("usage_runs")
    tally.inc("nontrivial")
    if res["exc"] is not None:
        tally.violation({"argv": argv, "fingerprint": "usage:exc:" + res["exc"]["fingerprint"],
                         "what": "generator raised %r" % (res["exc"],)})
        return
    # every weighted draw must use weights proportional to the reference on its
    # support (a refactoring may draw a list entry by entry with renormalised
    # weights), and all list entries - except possibly the forced last entry of a
    # full-length list - must come out of weighted draws
    want = ref_weights(a["n2"], a["skew"])
    bad = None
    drawn = 0
    for cl in rngenv.LAST_NP.random.calls:
        if cl[0] != "choice" or cl[1] != a["n2"]:
            continue
        if len(cl) > 5 and cl[5] is not None and 0 in cl[5]:
            continue                     # a draw over {0,1}: tie indicators, not agents
        p = cl[4]
        if p is None:
            if a["skew"] != 1.0:
                continue                 # an unweighted draw contributes nothing
            p = tuple(1.0 / a["n2"] for _ in range(a["n2"]))
        supp = [i for i, x in enumerate(p) if x > 0]
        tot = sum(want[i] for i in supp)
        if any(abs(p[i] - want[i] / tot) > 1e-9 for i in supp):
            bad = ("usage:wrong-weights", "draw used p=%r, reference weights %r" % (p, want))
            break
        drawn += int(cl[2]) if cl[2] is not None else 1
    if bad is None:
        need = 0
        for text in (res["files"] or {}).values():
            lines = text.split("\n")[1:1 + a["n1"]]
            for l in lines:
                k = len(l.split(":", 1)[1].replace("(", " ").replace(")", " ").split())
                need += k - (1 if k == a["n2"] else 0)
        if drawn < need:
            bad = ("usage:list-drawn-without-the-weights",
                   "%d list entries came out of weighted draws, the files contain %d entries "
                   "that need one (modelled RNG calls %r)" % (
                       drawn, need, [c[:4] for c in rngenv.LAST_NP.random.calls]))
    if bad:
        tally.violation({"argv": argv, "args": a, "fingerprint": bad[0], "what": bad[1]})


def usage_vectors():
    from .. import genvectors
    out = []
    for mp in ("ha", "hr", "spa", "sm"):
        for n1 in (1, 2, 3):
            for n2 in (1, 2, 3, 4):
                if mp == "sm" and n2 != n1:
                    continue
                for pmin, pmax in ((1, 1), (1, n2), (n2, n2), (max(1, n2 - 1), n2)):
                    for skew in (0.25, 1.0, 2.0, 5.0):
                        a = genvectors.base(mp, n1, n2, 2 if mp == "spa" else None, pmin, pmax,
                                            0.0, 0.0, mp in ("hr", "sm"), skew=skew)
                        if a not in out:
                            out.append(a)
    return out


def main(tier):
    t0 = time.time()
    N = 40 if tier == "quick" else 120
    ss = skews(tier)
    tally = pool.run(work, [(n, ss) for n in range(1, N + 1)], chunksize=1)
    tally.merge(pool.run(work_usage, usage_vectors(), chunksize=20))
    c = tally.c
    coverage = {
        "evaluations": c.get("evaluations", 0),
        "distinct_nontrivial": c.get("nontrivial", 0),
        "rule": "n in 1..%d x %d skews (geometric grid 0.01..1000, integers 1..50, 1+-eps, "
                "extremes); exact Fraction reference; non-trivial = n>1 and s!=1 (all distinct)"
                % (N, len(ss)),
        "samples": tally.samples,
        "exhaustive": True,
        "usage_runs": c.get("usage_runs", 0),
        "usage_rule": "real Generator(argv) under the owned RNG environment on a grid of "
                      "(type, n1, n2, pmin, pmax, skew): every first-side list must be drawn by a "
                      "weighted draw without replacement whose p equals the reference weights",
    }
    assumptions = ["finite grid of skews; the continuum of s is not covered",
                   "tolerance 1e-12 relative on weights, 1e-9 on derived laws"]
    return evidence.conclude(PID, tier, LEVEL, tally, coverage, assumptions, t0)


def replay(path):
    with open(path) as f:
        p = json.load(f)
    d, w = defects(p["n"], p["skew"])
    print(p["n"], p["skew"], w, d)
    print("REPRODUCED" if d else "NOT REPRODUCED")
    return 1 if d else 0
