"""C17 - popularity skew is linear with the requested ratio."""
from __future__ import annotations

import json
import time
from fractions import Fraction

from .. import evidence, pool

PID = "C17"
LEVEL = "exploration"
TOL = 1e-12


def skews(tier):
    s = set()
    k = 120 if tier == "quick" else 600
    for i in range(k + 1):          # geometric grid 0.01 .. 1000
        s.add(10 ** (-2 + 5 * i / k))
    for i in range(1, 51):
        s.add(float(i))
    for e in (1e-3, 1e-6, 1e-9, 0.1, 0.5):
        s.add(1 + e)
        s.add(1 - e)
    s.update((0.001, 0.01, 0.25, 0.5, 2.5, 1e4, 1e6))
    return sorted(s)


def defects(n, s):
    import numpy as np
    from matchingproblems.generator.generator_shared import create_linear_distribution
    try:
        w = create_linear_distribution(n, s)
        w = [float(x) for x in w]
    except Exception as e:     # noqa
        return ["exc:" + type(e).__name__], None
    out = []
    if len(w) != n:
        return ["length"], w
    fs = Fraction(s)
    raw = [1 + Fraction(i) * (fs - 1) / (n - 1) for i in range(n)] if n > 1 else [Fraction(1)]
    tot = sum(raw)
    ref = [float(x / tot) for x in raw]
    if any(not (x > 0) for x in w):
        out.append("non-positive-weight")
    if abs(sum(w) - 1.0) > 1e-9:
        out.append("sum-not-one")
    if any(abs(a - b) > TOL * max(1.0, abs(b)) + 1e-15 for a, b in zip(w, ref)):
        out.append("not-the-arithmetic-progression")
    if n > 1:
        scale = max(abs(x) for x in w)
        if abs(w[-1] - s * w[0]) > 1e-9 * max(scale, abs(s * w[0])):
            out.append("ratio-last-over-first")
        d = [w[i + 1] - w[i] for i in range(n - 1)]
        if any(abs(x - d[0]) > 1e-9 * scale for x in d):
            out.append("first-difference-not-constant")
    else:
        if w != [1.0]:
            out.append("single-agent-weight-not-one")
    try:
        np.random.seed(1)
        np.random.choice(np.arange(1, n + 1), 1, replace=False, p=np.array(w))
    except Exception as e:     # noqa
        out.append("numpy-rejects-as-p:" + type(e).__name__)
    return out, w


def work(item, tally):
    n, ss = item
    for s in ss:
        tally.inc("evaluations")
        if n > 1 and s != 1.0:
            tally.inc("nontrivial")
        d, w = defects(n, s)
        if d:
            tally.violation({"n": n, "skew": s, "weights": w,
                             "fingerprint": ",".join(sorted(d)),
                             "what": "create_linear_distribution(%d, %r) = %r: %s" % (n, s, w, d)})
    if n in (1, 4):
        tally.sample({"n": n, "skew": ss[len(ss) // 2],
                      "weights": defects(n, ss[len(ss) // 2])[1]})


def main(tier):
    t0 = time.time()
    N = 40 if tier == "quick" else 120
    ss = skews(tier)
    tally = pool.run(work, [(n, ss) for n in range(1, N + 1)], chunksize=1)
    c = tally.c
    coverage = {
        "evaluations": c.get("evaluations", 0),
        "distinct_nontrivial": c.get("nontrivial", 0),
        "rule": "n in 1..%d x %d skews (geometric grid 0.01..1000, integers 1..50, 1+-eps, "
                "extremes); exact Fraction reference; non-trivial = n>1 and s!=1 (all distinct)"
                % (N, len(ss)),
        "samples": tally.samples,
        "exhaustive": True,
    }
    assumptions = ["finite grid of skews; the continuum of s is not covered",
                   "tolerance 1e-12 relative on weights, 1e-9 on derived laws"]
    return evidence.conclude(PID, tier, LEVEL, tally, coverage, assumptions, t0)


def replay(path):
    with open(path) as f:
        p = json.load(f)
    d, w = defects(p["n"], p["skew"])
    print(p["n"], p["skew"], w, d)
    print("REPRODUCED" if d else "NOT REPRODUCED")
    return 1 if d else 0
