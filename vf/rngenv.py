"""E3 - the generator's randomness as an owned environment, and the
exploration of one generator argument vector over every RNG answer."""
from __future__ import annotations

import itertools
import math
import os
import random as _random
import shutil

import numpy as _np

from . import explore, lprun
from .explore import HarnessError


def _perm_from_index(n, idx):
    """idx-th permutation of range(n) in lexicographic order (0 = identity)."""
    items = list(range(n))
    out = []
    for k in range(n, 0, -1):
        f = math.factorial(k - 1)
        q, idx = divmod(idx, f)
        out.append(items.pop(q))
    return out


class _NpRandom:
    def __init__(self, env):
        self.env = env
        self.calls = []          # log of modelled calls (C17 looks at the weights)

    def permutation(self, x):
        a = _np.arange(x) if isinstance(x, (int, _np.integer)) else _np.array(x)
        n = len(a)
        self.calls.append(("permutation", n))
        if n <= 1:
            return a
        idx = self.env.choose(math.factorial(n), "permutation(%d)" % n)
        return a[_perm_from_index(n, idx)]

    def randint(self, low, high=None, size=None):
        if size is not None:
            raise HarnessError("RngEnv: randint(size=...) not modelled")
        if high is None:
            low, high = 0, low
        if high <= low:
            raise ValueError("low >= high")
        return low + self.env.choose(high - low, "randint(%d,%d)" % (low, high))

    def choice(self, a, size=None, replace=True, p=None):
        a = _np.asarray(a)
        n = len(a)
        self.calls.append(("choice", n, size, bool(replace),
                           None if p is None else tuple(float(x) for x in p),
                           tuple(int(x) for x in a.tolist()) if a.dtype.kind in "iu" else None))
        if p is not None:
            p = [float(x) for x in p]
            if len(p) != n:
                raise ValueError("'a' and 'p' must have same size")
            if any(x < 0 for x in p):
                raise ValueError("probabilities are not non-negative")
            if abs(sum(p) - 1.0) > 1e-8:
                raise ValueError("probabilities do not sum to 1")
            support = [i for i in range(n) if p[i] > 0]
        else:
            support = list(range(n))
        if size is None:
            raise HarnessError("RngEnv: choice(size=None) not modelled")
        k = int(size)
        if replace:
            # all vectors over the support
            total = len(support) ** k
            if k and not support:
                raise ValueError("empty support")
            idx = self.env.choose(total, "choice-rep(%d^%d)" % (len(support), k)) \
                if total > 1 else 0
            out = []
            for _ in range(k):
                idx, r = divmod(idx, len(support))
                out.append(a[support[r]])
            # most significant position first (so choice 0 = all first-support)
            return _np.array(out[::-1], dtype=a.dtype)
        if k > n:
            raise ValueError("Cannot take a larger sample than population when 'replace=False'")
        if k > len(support):
            raise ValueError("Fewer non-zero entries in p than size")
        total = math.perm(len(support), k)
        idx = self.env.choose(total, "choice-norep(P(%d,%d))" % (len(support), k)) \
            if total > 1 else 0
        pool = list(support)
        out = []
        for j in range(k):
            f = math.perm(len(pool) - 1, k - j - 1)
            q, idx = divmod(idx, f)
            out.append(a[pool.pop(q)])
        return _np.array(out, dtype=a.dtype)

    def shuffle(self, x):
        n = len(x)
        self.calls.append(("shuffle", n))
        if n <= 1:
            return
        idx = self.env.choose(math.factorial(n), "np.shuffle(%d)" % n)
        vals = [x[i] for i in _perm_from_index(n, idx)]
        for i, v in enumerate(vals):
            x[i] = v

    def __getattr__(self, name):
        raise HarnessError("RngEnv: numpy.random.%s is not modelled (only discrete draws "
                           "with a finite outcome set can be enumerated)" % name)


class NpShim:
    def __init__(self, env):
        self.random = _NpRandom(env)

    def __getattr__(self, name):
        return getattr(_np, name)


class RandShim:
    def __init__(self, env):
        self.env = env

    def shuffle(self, x):
        n = len(x)
        if n <= 1:
            return
        idx = self.env.choose(math.factorial(n), "shuffle(%d)" % n)
        perm = _perm_from_index(n, idx)
        vals = [x[i] for i in perm]
        for i, v in enumerate(vals):
            x[i] = v

    def randint(self, a, b):
        return a + self.env.choose(b - a + 1, "random.randint(%d,%d)" % (a, b))

    def randrange(self, start, stop=None, step=1):
        r = range(start, stop, step) if stop is not None else range(start)
        if len(r) == 0:
            raise ValueError("empty range for randrange()")
        return r[self.env.choose(len(r), "random.randrange(%d)" % len(r))]

    def choice(self, seq):
        if len(seq) == 0:
            raise IndexError("Cannot choose from an empty sequence")
        return seq[self.env.choose(len(seq), "random.choice(%d)" % len(seq))]

    def sample(self, population, k):
        pop = list(population)
        if k > len(pop) or k < 0:
            raise ValueError("Sample larger than population or is negative")
        total = math.perm(len(pop), k)
        idx = self.env.choose(total, "random.sample(P(%d,%d))" % (len(pop), k)) if total > 1 else 0
        out = []
        for j in range(k):
            f = math.perm(len(pop) - 1, k - j - 1)
            q, idx = divmod(idx, f)
            out.append(pop.pop(q))
        return out

    def __getattr__(self, name):
        if name in ("random", "uniform", "choices", "seed", "gauss", "betavariate",
                    "triangular", "getrandbits"):
            raise HarnessError("RngEnv: random.%s is not modelled (only discrete draws with "
                               "a finite outcome set can be enumerated)" % name)
        return getattr(_random, name)


LAST_NP = None


def _gen_modules():
    """Every matchingproblems.generator module that names numpy as `np` or the
    random module as `random`: the RNG is owned wherever the generator can
    reach it, not only in generator_shared."""
    import sys
    import matchingproblems.generator.generator  # noqa: load the package
    out = []
    for name, mod in list(sys.modules.items()):
        if name.startswith("matchingproblems.generator") and mod is not None:
            out.append(mod)
    return out


def install(env):
    global LAST_NP
    LAST_NP = NpShim(env)
    rs = RandShim(env)
    for mod in _gen_modules():
        cur = getattr(mod, "np", None)
        if cur is _np or isinstance(cur, NpShim):
            mod.np = LAST_NP
        cur = getattr(mod, "random", None)
        if cur is _random or isinstance(cur, RandShim):
            mod.random = rs


def uninstall():
    for mod in _gen_modules():
        if isinstance(getattr(mod, "np", None), NpShim):
            mod.np = _np
        if isinstance(getattr(mod, "random", None), RandShim):
            mod.random = _random


def outdir(tag="gen"):
    return os.path.join(lprun.scratch(), tag)


def run_generator(argv_tail, env=None, real_seed=None, tag="gen",
                  precreate=False):
    """Run Generator(['-o', dir] + argv_tail) on a fresh output directory.
    Returns dict(files={name: text} or None, exc=record or None, dir_exists)."""
    from matchingproblems.generator.generator import Generator
    d = outdir(tag)
    shutil.rmtree(d, ignore_errors=True)
    if precreate:
        os.makedirs(d)
    if env is not None:
        install(env)
    else:
        uninstall()
        if real_seed is not None:
            _random.seed(real_seed)
            _np.random.seed(real_seed)
    res = {"files": None, "exc": None, "dir_exists": None}
    try:
        with lprun._Quiet() as q, lprun.Watchdog():
            try:
                Generator(["-o", d] + list(argv_tail))
            finally:
                res["stderr"] = q_value(q)
    except SystemExit as e:
        res["exc"] = {"type": "SystemExit", "code": e.code,
                      "fingerprint": "SystemExit(%r)" % (e.code,),
                      "message": res.get("stderr", "")[-200:]}
    except HarnessError:
        raise
    except Exception as e:     # noqa
        res["exc"] = lprun.exc_record(e, "generator")
    finally:
        if env is not None:
            uninstall()
    res["dir_exists"] = os.path.isdir(d)
    if os.path.isdir(d):
        files = {}
        for fn in sorted(os.listdir(d)):
            with open(os.path.join(d, fn)) as f:
                files[fn] = f.read()
        res["files"] = files
    return res


def q_value(q):
    try:
        import sys
        return sys.stderr.getvalue()
    except Exception:      # noqa
        return ""


def explore_vector(argv_tail, cap):
    """Yield (choices, result) for every RNG answer sequence of one argument
    vector; stops after cap+1 executions (caller must then discard)."""

    def run(env):
        return run_generator(argv_tail, env)

    yield from ((ch, res) for ch, tr, res in
                explore.explore(run, branch="all", max_execs=cap + 1))
