"""Driver: one execution of the real solver entry points under the owned
environments (FakeCBC, virtual clock), plus parsers for the result texts."""
from __future__ import annotations

import atexit
import io
import os
import re
import shutil
import sys
import traceback

from . import fakecbc, clock as vclock
from .explore import HarnessError

_SCRATCH = None
_INST_CACHE = {}


def root():
    """Scratch root owned by the top-level check process; workers make their
    own sub-directory below it; removed when the top-level process exits."""
    r = os.environ.get("VERIF_SCRATCH_ROOT")
    if not r or not os.path.isdir(r):
        base = "/dev/shm" if os.path.isdir("/dev/shm") else "/tmp"
        r = os.path.join(base, "verif-mp-root-%d" % os.getpid())
        os.makedirs(r, exist_ok=True)
        os.environ["VERIF_SCRATCH_ROOT"] = r
        atexit.register(_cleanup, r, os.getpid())
    return r


def scratch():
    global _SCRATCH
    if _SCRATCH is None or not os.path.isdir(_SCRATCH) or \
            not _SCRATCH.endswith("-%d" % os.getpid()):
        _SCRATCH = os.path.join(root(), "w-%d" % os.getpid())
        os.makedirs(_SCRATCH, exist_ok=True)
        os.environ["TMPDIR"] = _SCRATCH
        os.environ["TMP"] = _SCRATCH
        _INST_CACHE.clear()
    return _SCRATCH


def _cleanup(path, pid):
    if os.getpid() == pid:
        shutil.rmtree(path, ignore_errors=True)


def cleanup_now():
    global _SCRATCH
    if _SCRATCH is not None:
        shutil.rmtree(_SCRATCH, ignore_errors=True)
        _SCRATCH = None
        _INST_CACHE.clear()


def wipe_tmpfiles():
    """PuLP leaves its .mps behind when the back end produced no solution."""
    d = scratch()
    for fn in os.listdir(d):
        if fn.endswith("-pulp.mps") or fn.endswith("-pulp.sol") or \
                fn.endswith("-pulp.lp") or fn.endswith("-pulp.mst"):
            try:
                os.unlink(os.path.join(d, fn))
            except OSError:
                pass


def inst_file(text, name="inst.txt"):
    """Write the instance text to the scratch directory (cached)."""
    d = scratch()
    path = os.path.join(d, name)
    if _INST_CACHE.get(path) != text:
        with open(path, "w") as f:
            f.write(text)
        _INST_CACHE[path] = text
    return path


def exc_fingerprint(e):
    """ExcType@file:function of the innermost matchingproblems frame."""
    tb = traceback.extract_tb(e.__traceback__)
    where = "?"
    for fr in tb:
        if "/matchingproblems/" in fr.filename:
            where = "%s:%s" % (os.path.basename(fr.filename), fr.name)
    return "%s@%s" % (type(e).__name__, where)


def exc_record(e, stage):
    return {"stage": stage, "fingerprint": exc_fingerprint(e),
            "type": type(e).__name__, "message": str(e)[:300]}


class ReadLog:
    """Logs reads of LpVariable.varValue made from matchingproblems frames."""

    def __init__(self):
        self.reads = []

    def flush(self):
        r = self.reads
        self.reads = []
        return r


_READLOG = None


def install_readlog():
    """Class-level data descriptor on pulp.LpVariable.varValue (harness side;
    LpVariable has no __slots__, so the instance dict keeps the value)."""
    global _READLOG
    import pulp
    if _READLOG is not None:
        return _READLOG
    log = ReadLog()
    getframe = sys._getframe

    def fget(self):
        g = getframe(1).f_globals.get("__name__", "")
        if g.startswith("matchingproblems"):
            log.reads.append(id(self))
        return self.__dict__.get("_vf_value")

    def fset(self, v):
        self.__dict__["_vf_value"] = v

    pulp.LpVariable.varValue = property(fget, fset)
    _READLOG = log
    return log


_INSTALLED = False


def install_all(readlog=True):
    global _INSTALLED
    scratch()
    fakecbc.install()
    if readlog:
        install_readlog()
    _INSTALLED = True


TIMEOUTS = 0          # watchdog firings in this process


class ExecutionTimeout(Exception):
    """One execution of the code under test exceeded the watchdog budget."""


class Watchdog:
    """Wall-clock budget for ONE execution of the code under test (normally a
    few milliseconds; the budget is 1000x that, so load cannot trip it)."""
    BUDGET = 30.0

    def __init__(self, seconds=None):
        self.seconds = seconds or self.BUDGET
        self.armed = False

    def _fire(self, signum, frame):
        global TIMEOUTS
        TIMEOUTS += 1
        raise ExecutionTimeout("execution exceeded %.0f s" % self.seconds)

    def __enter__(self):
        import signal
        import threading
        if threading.current_thread() is threading.main_thread():
            import time
            self.old = signal.signal(signal.SIGALRM, self._fire)
            self.outer = signal.setitimer(signal.ITIMER_REAL, self.seconds)[0]
            self.t0 = time.time()
            self.armed = True
        return self

    def __exit__(self, *a):
        import signal
        import time
        if self.armed:
            signal.setitimer(signal.ITIMER_REAL, 0)
            signal.signal(signal.SIGALRM, self.old)
            if self.outer > 0:       # re-arm the enclosing (item-level) timer
                left = max(self.outer - (time.time() - self.t0), 0.01)
                signal.setitimer(signal.ITIMER_REAL, left)
        return False


class _Quiet:
    """Silence argparse's usage output on stderr."""

    def __enter__(self):
        self.old = sys.stderr
        sys.stderr = io.StringIO()
        return self

    def __exit__(self, *a):
        sys.stderr = self.old


def run_solver(text, argv_tail, env=None, *, na=None, time_limit=None,
               getters=("short", "long"), fault_fn=None, history=None,
               fname="inst.txt", real=False, observe_all=False):
    """One complete execution.  argv_tail are the options after `-f path`.

    history: list of operation names after the constructor; default
    ['solve'] + getters.  Returns an observation dict (JSON-able except
    'texts').  real=True runs with the real CBC and the real clock.
    """
    from matchingproblems.solver.solver import Solver
    path = inst_file(text, fname)
    argv = ["-f", path] + list(argv_tail)
    ctx = fakecbc.CTX
    ctx.reset()
    clk = None
    if not real:
        if not _INSTALLED:
            install_all()
        fakecbc.install()
        clk = vclock.VirtualClock()
        vclock.install(clk)
        ctx.env = env
        ctx.clock = clk
        ctx.fault_fn = fault_fn
        ctx.observe_all = observe_all
        ctx.read_log = _READLOG
        if _READLOG is not None:
            _READLOG.flush()
    elif real == "shadow":
        scratch()
        fakecbc.install_shadow()
        vclock.uninstall()
    else:
        fakecbc.uninstall()
        vclock.uninstall()
    obs = {"argv": list(argv_tail), "exc": None, "outputs": [], "solves": None}
    ops = list(history) if history is not None else ["solve"] + list(getters)
    S = None
    try:
        with _Quiet(), Watchdog():
            S = Solver(argv)
    except SystemExit as e:
        obs["exc"] = {"stage": "init", "fingerprint": "SystemExit(%r)" % (e.code,),
                      "type": "SystemExit", "message": str(e.code)}
    except Exception as e:            # noqa
        obs["exc"] = exc_record(e, "init")
    if S is not None:
        ctx.solver_obj = S
        for op in ops:
            try:
              with Watchdog():
                if op == "solve":
                    S.solve(timeLimit=time_limit)
                    obs["outputs"].append(("solve", None))
                    if clk is not None:
                        obs["virtual_us_after_solve"] = clk.us
                    if _READLOG is not None and not real:
                        _READLOG.flush()
                elif op == "short":
                    obs["outputs"].append(("short", S.get_results_short()))
                elif op == "results":
                    obs["outputs"].append(("results", S.get_results()))
                elif op == "long":
                    obs["outputs"].append(("long", S.get_results_long()))
                elif op == "debug":
                    obs["outputs"].append(("debug", S.get_debug()))
                else:
                    raise HarnessError("unknown op %r" % op)
            except HarnessError:
                raise
            except Exception as e:    # noqa
                rec = exc_record(e, op)
                obs["outputs"].append((op, rec))
                if obs["exc"] is None:
                    obs["exc"] = rec
                if op == "solve":
                    wipe_tmpfiles()
                    break
    obs["solves"] = ctx.solves
    obs["solver"] = S
    obs["delegated_solves"] = ctx.delegated
    obs["aux_reads"] = 0
    if not real:
        if _READLOG is not None and S is not None:
            # projection certificate: which variables did the getters read?
            reads = set(_READLOG.flush())
            if reads:
                observed = set()
                try:
                    for row in S.model.pairs:
                        for pair in row:
                            if hasattr(pair, "lp_var"):
                                observed.add(id(pair.lp_var))
                    for v in getattr(S.model, "project_closures", []) or []:
                        observed.add(id(v))
                except Exception:      # noqa
                    pass
                obs["aux_reads"] = len(reads - observed)
        vclock.uninstall()
    return obs


# --------------------------------------------------------------------------
# result text parsing
# --------------------------------------------------------------------------

_KEYS_INT = ("size", "degree", "max_lec_abs_diff", "sum_lec_abs_diff")
_TUPLE_RE = re.compile(r"^\((-?\d+), (-?\d+)\)$")


def parse_results(text):
    """Parse short or long LP-mode results into a dict.  Unknown lines are
    kept under 'other'.  Never raises on odd text; records 'parse_errors'."""
    d = {"info": [], "other": [], "parse_errors": [], "has_header": False}
    section = None
    sect_lines = {"Student_assignments": [], "Project_assignments": [],
                  "Lecturer_assignments": []}
    for line in text.split("\n"):
        if line.startswith("# Results for the run conducted on"):
            d["has_header"] = True
            continue
        if line.startswith("#") or line == "":
            continue
        if line.startswith("- "):
            d["info"].append(line)
            continue
        if line.rstrip(":") in sect_lines and line.endswith(":"):
            section = line[:-1]
            continue
        if section is not None:
            sect_lines[section].append(line)
            continue
        if line.startswith("Timeout: "):
            d["timeout"] = line[len("Timeout: "):]
            continue
        if ": " in line:
            k, v = line.split(": ", 1)
            try:
                if k == "matching":
                    d[k] = tuple(int(x) for x in v.split())
                elif k in _KEYS_INT:
                    d[k] = int(v)
                elif k in ("cost", "cost_sq"):
                    m = _TUPLE_RE.match(v)
                    d[k] = (int(m.group(1)), int(m.group(2)))
                elif k == "profile":
                    t = v.split()
                    assert t[0] == "<" and t[-1] == ">"
                    d[k] = tuple(int(x) for x in t[1:-1])
                elif k == "stability_correct":
                    d[k] = v
                elif k == "pulp_status":
                    d[k] = v
                elif k.startswith("time_"):
                    d[k] = float(v)
                else:
                    d["other"].append(line)
            except Exception as e:    # noqa
                d["parse_errors"].append(line)
        elif line.startswith("pulp_status:"):
            d["pulp_status"] = line[len("pulp_status:"):].strip()
        else:
            d["other"].append(line)
    d["sections"] = sect_lines
    return d


_ST_RE = re.compile(r"^s_(\d+): p_(\d+) \(l_(\d+)\) $")
_ST_NONE_RE = re.compile(r"^s_(\d+) no assignment$")
_PR_RE = re.compile(r"^p_(\d+) \(l_(\d+)\): (.*?)    (\d+)/(\d+)$")
_LE_RE = re.compile(r"^l_(\d+): (.*?)    (\d+)/(\d+) \((-?\d+)\)$")


def parse_long_sections(d):
    """Parse the three listings of the long format.  Returns
    (students, projects, lecturers, errors)."""
    errs = []
    students = []       # (sid, pid or 0, lid or None)
    for line in d["sections"]["Student_assignments"]:
        m = _ST_RE.match(line)
        if m:
            students.append((int(m.group(1)), int(m.group(2)), int(m.group(3))))
            continue
        m = _ST_NONE_RE.match(line)
        if m:
            students.append((int(m.group(1)), 0, None))
            continue
        errs.append("student line %r" % line)
    projects = []       # (pid, lid, [students], k, uq)
    for line in d["sections"]["Project_assignments"]:
        m = _PR_RE.match(line)
        if not m:
            errs.append("project line %r" % line)
            continue
        body = m.group(3)
        if body == "no assignment ":
            studs = []
        else:
            studs = []
            for tok in body.split():
                if not tok.startswith("s_"):
                    errs.append("project body %r" % line)
                    break
                studs.append(int(tok[2:]))
        projects.append((int(m.group(1)), int(m.group(2)), studs,
                         int(m.group(4)), int(m.group(5))))
    lecturers = []      # (lid, [(student, project)], k, uq, target)
    for line in d["sections"]["Lecturer_assignments"]:
        m = _LE_RE.match(line)
        if not m:
            errs.append("lecturer line %r" % line)
            continue
        body = m.group(2)
        pairs = []
        if body != "no assignment ":
            toks = body.split()
            if len(toks) % 2:
                errs.append("lecturer body %r" % line)
            else:
                for a, b in zip(toks[::2], toks[1::2]):
                    mm = re.match(r"^s_(\d+)$", a)
                    nn = re.match(r"^\(p_(\d+)\)$", b)
                    if not (mm and nn):
                        errs.append("lecturer body %r" % line)
                        break
                    pairs.append((int(mm.group(1)), int(nn.group(1))))
        lecturers.append((int(m.group(1)), pairs, int(m.group(3)),
                          int(m.group(4)), int(m.group(5))))
    return students, projects, lecturers, errs


def mask_times(text):
    """Remove the run-dependent parts (date header and timing values)."""
    out = []
    for line in text.split("\n"):
        if line.startswith("# Results for the run conducted on"):
            line = "# Results for the run conducted on <date>"
        elif line.startswith("time_") and ": " in line:
            line = line.split(": ")[0] + ": <t>"
        out.append(line)
    return "\n".join(out)


def run_interleaved(specs, order, env=None):
    """Several Solver objects alive in one process: ALL are constructed first
    (in list order), then solved and read in `order` (a permutation of
    indices).  specs: list of (text, argv_tail, getters).  Returns one
    observation per spec (same shape as run_solver's)."""
    from matchingproblems.solver.solver import Solver
    ctx = fakecbc.CTX
    ctx.reset()
    if not _INSTALLED:
        install_all()
    fakecbc.install()
    clk = vclock.VirtualClock()
    vclock.install(clk)
    ctx.env = env
    ctx.clock = clk
    ctx.read_log = None
    obs_list = []
    solvers = []
    try:
        for i, (text, tail, getters) in enumerate(specs):
            path = inst_file(text, "inter%d.txt" % i)
            obs = {"argv": list(tail), "exc": None, "outputs": [], "solves": []}
            S = None
            try:
                with _Quiet(), Watchdog():
                    S = Solver(["-f", path] + list(tail))
            except SystemExit as e:
                obs["exc"] = {"stage": "init", "fingerprint": "SystemExit(%r)" % (e.code,),
                              "type": "SystemExit", "message": str(e.code)}
            except Exception as e:        # noqa
                obs["exc"] = exc_record(e, "init")
            solvers.append(S)
            obs_list.append(obs)
        for i in order:
            S = solvers[i]
            obs = obs_list[i]
            if S is None:
                continue
            ctx.solver_obj = S
            before = len(ctx.solves)
            for op in ["solve"] + list(specs[i][2]):
                try:
                  with Watchdog():
                    if op == "solve":
                        S.solve()
                        obs["outputs"].append(("solve", None))
                    elif op == "short":
                        obs["outputs"].append(("short", S.get_results_short()))
                    elif op == "long":
                        obs["outputs"].append(("long", S.get_results_long()))
                    elif op == "results":
                        obs["outputs"].append(("results", S.get_results()))
                    elif op == "debug":
                        obs["outputs"].append(("debug", S.get_debug()))
                except HarnessError:
                    raise
                except Exception as e:    # noqa
                    rec = exc_record(e, op)
                    obs["outputs"].append((op, rec))
                    if obs["exc"] is None:
                        obs["exc"] = rec
                    if op == "solve":
                        wipe_tmpfiles()
                        break
            obs["solves"] = ctx.solves[before:]
            obs["solver"] = None
    finally:
        vclock.uninstall()
    return obs_list
