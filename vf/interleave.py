"""Histories with two Solver objects alive at once: both are constructed before
either is solved.  Each object's results are judged by the ordinary judge of
the property (a differential oracle from a non-initial process state: option
or instance state must not be shared between objects)."""
from __future__ import annotations

from . import lpcheck, lprun, sweep
from . import instances as I


def make_ctx(inst, text, twopl, pc, stab, crits, bf=False):
    ctx = sweep.Ctx()
    ctx.inst, ctx.twopl, ctx.pc, ctx.stab, ctx.crits = inst, twopl, pc, stab, tuple(crits)
    ctx.positions = None
    ctx.time_limit = None
    ctx.partial = True
    ctx.text = text
    ctx.tail = lpcheck.tail_for(inst, pc, stab, crits, twopl=twopl, bf=bf)
    return ctx


def exec_of(obs):
    e = sweep.Exec()
    e.choices = []
    e.obs = obs
    st, lg = lpcheck.get_output(obs, "short"), lpcheck.get_output(obs, "long")
    e.short_text = st if isinstance(st, str) else None
    e.long_text = lg if isinstance(lg, str) else None
    e.debug_text = None
    e.short = lprun.parse_results(st) if isinstance(st, str) else None
    e.long = lprun.parse_results(lg) if isinstance(lg, str) else None
    return e


def run_pair(ctxA, ctxB, order, getters=("short", "long")):
    from .explore import Env
    specs = [(ctxA.text, ctxA.tail, getters), (ctxB.text, ctxB.tail, getters)]
    return lprun.run_interleaved(specs, order, Env([]))


def work_lp(judge, tag):
    """work(item, tally) for items (instA, optA, instB, optB); opt = (twopl, pc,
    stab, crits).  Both solve orders."""
    from .pool import Tally

    def work(item, tally):
        instA, optA, instB, optB = item
        ctxA = make_ctx(instA, I.render(instA), *optA)
        ctxB = make_ctx(instB, I.render(instB), *optB)
        for order in ((0, 1), (1, 0)):
            obsA, obsB = run_pair(ctxA, ctxB, order)
            tally.inc("interleaved_histories")
            tally.inc("executions", 2)
            tally.inc("answers", len(obsA["solves"]) + len(obsB["solves"]))
            for ctx, obs, other in ((ctxA, obsA, ctxB), (ctxB, obsB, ctxA)):
                sub = Tally()
                judge(ctx, [exec_of(obs)], sub)
                for v in sub.violations:
                    v = dict(v)
                    v["fingerprint"] = "two-solvers-alive:" + v["fingerprint"]
                    v["what"] = ("with a second Solver %r constructed before this one was solved "
                                 "(solve order %r): %s" % (other.tail, order, v.get("what")))
                    v["interleaved_with"] = other.describe()
                    v["order"] = list(order)
                    tally.violation(v)
    return work
