"""setup_cmd: nothing to build (pure Python); self-check the harness pieces
that every verdict depends on."""
import sys
import time

sys.path.insert(0, "/repo")


def main():
    t0 = time.time()
    from . import instances as I, ref
    n = 0
    for inst in I.family_HR(True, sizes=[(1, 1), (1, 2), (2, 1), (2, 2)]):
        n += ref.selfcheck_hr(inst)
    print("selftest: reference SPA-STL vs native HR blocking pairs agree on %d assignments" % n)
    import pulp
    import matchingproblems
    print("selftest: pulp %s, matchingproblems from %s" % (
        pulp.__version__, matchingproblems.__file__))
    print("selftest ok in %.1fs" % (time.time() - t0))
    return 0


if __name__ == "__main__":
    sys.exit(main())
