"""Shared pieces of the LP-mode checks (C01-C05, C11, C14, C18): option
vectors, exploration of one (instance, argv) item, read certificate."""
from __future__ import annotations

import itertools

from . import explore, fakecbc, lprun, ref
from . import instances as I

CRITS = ("maxsize", "minsize", "gen", "gre", "mincost", "minsqcost", "lmb",
         "lsb", "mincostlsb")
FLAG = {c: "-" + c for c in CRITS}


def crit_argv(crits, positions=None):
    """crits: list of (name, extras).  positions default 1..n."""
    out = []
    for i, (name, extras) in enumerate(crits):
        pos = positions[i] if positions else i + 1
        out.append(FLAG[name])
        out.append(str(pos))
        out.extend(str(x) for x in extras)
    return out


def tail_for(inst, pc, stab, crits, twopl=None, positions=None, bf=False):
    t = ["-na", str(inst.kind)]
    if twopl is None:
        twopl = inst.lprefs is not None
    if twopl:
        t.append("-twopl")
    if pc:
        t.append("-pc")
    if stab:
        t.append("-stab")
    if bf:
        t.append("-bf")
    t += crit_argv(crits, positions)
    return t


def single_criteria(R, full_args=True):
    """Every single criterion with every argument vector of the small domain."""
    out = [("maxsize", ()), ("minsize", ()), ("lmb", ()), ("lsb", ())]
    out.append(("gen", ()))
    out.append(("gre", ()))
    if full_args:
        for c in range(1, R + 1):
            out.append(("gen", (c,)))
        for c in range(1, R + 2):
            out.append(("gre", (c,)))
    for name in ("mincost", "minsqcost", "mincostlsb"):
        out.append((name, ()))
        if full_args:
            for a in (0, 1, 2):
                out.append((name, (a,)))
                for b in (0, 1, 2):
                    out.append((name, (a, b)))
        else:
            out.append((name, (1, 1)))
            out.append((name, (0, 1)))
            out.append((name, (2, 1)))
    return out


def default_singles():
    return [(c, ()) for c in CRITS]


def ordered_pairs():
    return [[(a, ()), (b, ())] for a in CRITS for b in CRITS if a != b]


def read_certificate_ok(obs):
    """Between two solves the library may only read the objective variable of
    the solve that just finished (so the continuation cannot depend on which
    optimal class an intermediate solve returned)."""
    solves = obs["solves"] or []
    if any(s.get("gap") for s in solves):
        # the back end may stop within a gap of the optimum: the objective
        # value itself then differs between admissible answers
        return False
    for k in range(1, len(solves)):
        prev = solves[k - 1]
        reads = solves[k].get("reads_before") or []
        allowed = set(prev.get("obj_ids", []))
        for r in reads:
            if r not in allowed:
                return False
    return True


def explore_item(text, tail, tally, *, time_limit=None,
                 getters=("short", "long"), fault_fn=None, force_all=False,
                 max_execs=20000, observe_all=False):
    """Yield (choices, obs) for every optimal class the back end may return at
    the last solve (and at every solve when the read certificate fails)."""

    def run(env):
        return lprun.run_solver(text, tail, env, time_limit=time_limit,
                                getters=getters, fault_fn=fault_fn,
                                observe_all=observe_all)

    mode = "all" if force_all else "last"
    first = True
    buffered = []
    n = 0
    for choices, trace, obs in explore.explore(run, branch=mode,
                                               max_execs=max_execs):
        n += 1
        tally.inc("executions")
        tally.inc("answers", len(obs["solves"] or []))
        tally.mx("max_fanout", max([t[0] for t in trace] or [0]))
        if obs.get("delegated_solves"):
            tally.inc("solves_delegated_to_real_cbc", obs["delegated_solves"])
        if first and not observe_all and obs.get("aux_reads"):
            # projection certificate failed: a getter read a variable that is
            # neither a pair variable nor a closure variable, so optimal points
            # that agree on those may still print differently: restart with
            # every optimal FULL point as a class of its own
            tally.inc("projection_certificate_failed_items")
            yield from explore_item(text, tail, tally, time_limit=time_limit,
                                    getters=getters, fault_fn=fault_fn,
                                    force_all=force_all, max_execs=min(max_execs, 3000),
                                    observe_all=True)
            return
        if first and mode == "last":
            first = False
            if not read_certificate_ok(obs):
                tally.inc("read_certificate_failed_items")
                # restart this item branching at every solve
                yield from explore_item(text, tail, tally,
                                        time_limit=time_limit, getters=getters,
                                        fault_fn=fault_fn, force_all=True,
                                        max_execs=max_execs, observe_all=observe_all)
                return
        yield choices, obs
    if n >= max_execs:
        tally.inc("items_capped")


def get_output(obs, op):
    for name, val in obs["outputs"]:
        if name == op:
            return val
    return None


def pair_column_map(S):
    """id(lp_var) -> (studentID, projectID) for the Solver under test."""
    out = {}
    for row in S.model.pairs:
        for pair in row:
            v = getattr(pair, "lp_var", None)
            if v is not None:
                out[id(v)] = (pair.studentID, pair.projectID)
    return out


def diagnose_false_infeasible(obs, inst, M):
    """Why does the (reference-feasible) matching M not fit the last integer
    program?  Returns a short root-cause string (names of the aux columns
    whose bounds reject it, or the rows)."""
    p = fakecbc.CTX.last_problem
    S = obs.get("solver")
    if p is None or S is None:
        return "nodiag"
    try:
        vs = S.solver.prob._variables
        pmap = pair_column_map(S)
        lo = list(p.lo)
        hi = list(p.hi)
        relaxed = []
        binaries = set()
        for row in S.model.pairs:
            for pair in row:
                for a in ("alpha_var", "beta_var"):
                    if hasattr(pair, a):
                        binaries.add(id(getattr(pair, a)))
        for v in getattr(S.model, "project_closures", []) or []:
            binaries.add(id(v))
        for c in range(p.ncols):
            v = vs[c] if c < len(vs) else None
            if v is not None and id(v) in pmap:
                s, pr = pmap[id(v)]
                val = 1 if M[s - 1] == pr else 0
                lo[c] = hi[c] = val
            elif v is not None and id(v) not in binaries:
                hi[c] = p.hi[c] + 60
                relaxed.append(c)
        q = fakecbc.Problem()
        for a in fakecbc.Problem.__slots__:
            if hasattr(p, a):
                setattr(q, a, getattr(p, a))
        q.lo, q.hi = lo, hi
        # minimise total bound excess: just find any feasible point
        r = fakecbc.enumerate_ilp(q, [], True, node_cap=200000)
        if r.status != "Optimal":
            return "rows"
        # among feasible points prefer ones inside the bounds: report columns
        # whose original bounds are violated by the witness
        vec = r.classes[0]
        bad = sorted({vs[c].name for c in relaxed
                      if not (p.lo[c] <= vec[c] <= p.hi[c])})
        return "bound:" + ",".join(bad) if bad else "rows?"
    except Exception as e:     # diagnosis only
        return "nodiag:" + type(e).__name__
