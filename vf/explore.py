"""E1 - stateless choice-point explorer (deviation-free DFS with replay).

`run(env)` must be a deterministic function of the answers `env.choose`
returns.  The explorer re-executes `run` once per explored choice sequence.
"""
from __future__ import annotations


class HarnessError(Exception):
    """The harness (not the code under test) is wrong; never a VIOLATION."""


class Env:
    def __init__(self, prefix=()):
        self.prefix = list(prefix)
        self.trace = []          # (n, label, choice)

    def choose(self, n, label=""):
        if n <= 0:
            raise HarnessError("choose() with empty menu at %r" % (label,))
        i = len(self.trace)
        if i < len(self.prefix):
            c = self.prefix[i]
            if isinstance(c, (list, tuple)):
                c, want = c
                if want != label:
                    raise HarnessError(
                        "replay divergence: label %r expected %r" % (label, want))
            if not 0 <= c < n:
                raise HarnessError(
                    "replay divergence: choice %r out of range %d at %r"
                    % (c, n, label))
        else:
            c = 0
        self.trace.append((n, label, c))
        return c

    def choices(self):
        return [t[2] for t in self.trace]


def explore(run, branch="all", max_execs=None, branch_filter=None):
    """Yield (choices, trace, observation) for every execution.

    branch = "all": branch at every choice point after the prefix.
    branch = "last": branch only at the last choice point of an execution
             (partial-order reduction justified by the caller's certificate).
    branch_filter(label) -> bool: only branch at points whose label passes.
    """
    stack = [[]]
    n = 0
    while stack:
        prefix = stack.pop()
        env = Env(prefix)
        obs = run(env)
        n += 1
        yield env.choices(), env.trace, obs
        if max_execs is not None and n >= max_execs:
            return
        first = len(prefix)
        pts = list(range(first, len(env.trace)))
        if branch == "last":
            pts = pts[-1:] if pts and pts[-1] == len(env.trace) - 1 else []
        new = []
        for i in pts:
            nalt, label, _ = env.trace[i]
            if branch_filter is not None and not branch_filter(label):
                continue
            base = [t[2] for t in env.trace[:i]]
            for alt in range(1, nalt):
                new.append(base + [alt])
        # explore in order of increasing alternative (reverse for the stack)
        stack.extend(reversed(new))
