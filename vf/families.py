"""Which (instance, option vector) items each LP-mode check enumerates per
tier.  Every family is enumerated completely; sizes are printed and recorded
in the evidence."""
from __future__ import annotations

import itertools

from . import instances as I
from . import lpcheck, ref

ALLP = None   # all profiles


def optvecs(two_sided, pcstab, critlists, also_without_twopl=False):
    """Option vectors (twopl, pc, stab, crits)."""
    out = []
    for pc, stab in pcstab:
        if stab and not two_sided:
            continue
        for crits in critlists:
            out.append((two_sided, pc, stab, tuple(crits)))
    if also_without_twopl and two_sided:
        for pc, stab in pcstab:
            if stab:
                continue
            for crits in critlists:
                out.append((False, pc, False, tuple(crits)))
    return out


ALL4 = ((False, False), (True, False), (False, True), (True, True))
DIAG2 = ((False, False), (True, True))
NOSTAB = ((False, False), (True, False))


def structs_small(two_sided, sizes, nls):
    for ns, np_ in sizes:
        for nl in nls:
            for sprefs, lect, lprefs in I.structures(ns, np_, nl, two_sided):
                yield ns, np_, nl, sprefs, lect, lprefs


def with_profiles(structs, profiles=None):
    for ns, np_, nl, sprefs, lect, lprefs in structs:
        for name, pq, lq3 in I.quota_profiles3(ns, np_, nl, lect):
            if profiles is not None and name not in profiles:
                continue
            yield I.make3(ns, np_, nl, sprefs, lect, lprefs, pq, lq3)


def singles_for(inst, full):
    return [[c] for c in lpcheck.single_criteria(ref.R(inst), full_args=full)]


def q_family(two_sided, structs, maxlq=2):
    trip = I.lecturer_triples(maxlq)
    for idx in structs:
        ns, np_, nl, sprefs, lect, lprefs = I.Q_STRUCTS[idx]
        for pq in itertools.product(I.PROJECT_PAIRS, repeat=np_):
            for lq3 in itertools.product(trip, repeat=nl):
                yield I.make3(ns, np_, nl, sprefs, lect,
                              lprefs if two_sided else None, pq, lq3)


TINY = [(1, 1), (1, 2), (2, 1)]
MID = [(2, 2)]
LONG = [(1, 3), (3, 1)]
P4 = ("unit", "cap2", "p1lq1", "lectight")
P3 = ("unit", "cap2", "lectight")


def lp_items(pid, tier, seed):
    """Return (iterator of (inst, optlist), description list)."""
    desc = []
    parts = []

    def add(name, insts, optfn):
        insts = list(insts)
        n_items = 0
        lst = []
        for inst in insts:
            ol = optfn(inst)
            if ol:
                lst.append((inst, ol))
                n_items += len(ol)
        desc.append({"family": name, "instances": len(lst),
                     "items": n_items})
        parts.append(lst)

    thorough = tier == "thorough"
    none = [[]]
    defaults = [[c] for c in lpcheck.default_singles()]
    pairs = lpcheck.ordered_pairs()

    if pid in ("C01", "C11"):
        # validity / statistics of every reported matching
        crit1 = none + defaults
        add("A two-sided x P x pc x stab x {none}",
            with_profiles(structs_small(True, I.SIZES_A, (1, 2))),
            lambda i: optvecs(True, ALL4, none, also_without_twopl=True))
        add("A one-sided x P x pc x {none}",
            with_profiles(structs_small(False, I.SIZES_A, (1, 2))),
            lambda i: optvecs(False, NOSTAB, none))
        add("L two-sided x P3 x pc x stab x {none}",
            with_profiles(structs_small(True, I.SIZES_A, (3,)), P3),
            lambda i: optvecs(True, ALL4, none))
        add("A(ns+np<=3) two-sided x P x pcstab diag x 9 default singles",
            with_profiles(structs_small(True, TINY, (1, 2, 3))),
            lambda i: optvecs(True, DIAG2, defaults))
        add("A(2,2)+(1,3)+(3,1) two-sided x P3 x (pc,stab)=(0,0) x 9 default singles",
            with_profiles(structs_small(True, MID + LONG, (1, 2)), P3),
            lambda i: optvecs(True, ((False, False),), defaults))
        add("Q[0,2] full quotas x (0,0),(1,1) x {none}",
            q_family(True, (0, 2)),
            lambda i: optvecs(True, DIAG2, none))
        add("HR two-sided x P x pc x stab x {none,maxsize,mincost,lsb}",
            I.family_HR(True, sizes=I.HR_SIZES[:6]),
            lambda i: optvecs(True, ALL4, none + [[("maxsize", ())],
                                                   [("mincost", (1, 1))],
                                                   [("lsb", ())]]))
        add("HR one-sided x P x pc x {none,maxsize}",
            I.family_HR(False, sizes=I.HR_SIZES[:6]),
            lambda i: optvecs(False, NOSTAB, none + [[("maxsize", ())]]))
        add("Q-structs x P x (0,0),(1,1) x 72 ordered pairs",
            [I.make3(ns, np_, nl, sp, le, lp, pq, lq3)
             for (ns, np_, nl, sp, le, lp) in I.Q_STRUCTS
             for _, pq, lq3 in I.quota_profiles3(ns, np_, nl, le)],
            lambda i: optvecs(True, DIAG2, pairs))
        add("W multi-digit ids (12 projects / 12 hospitals, 2 students) x (0,0),(0,1) x {none,maxsize}",
            I.family_W(big=False),
            lambda i: optvecs(True, ((False, False), (False, True)),
                              none + [[("maxsize", ())]]))
        add("W3 ids above 256 (302 projects) x (0,0),(0,1) x {none, maxsize}",
            I.family_W3(),
            lambda i: optvecs(True, ((False, False), (False, True)), none + [[("maxsize", ())]]))
        add("W 11 students (incl. 11 x 11 with pairs (1,11),(11,1)) x (0,0),(0,1) x {maxsize, mincost}",
            [x for x in I.family_W() if x.ns == 11],
            lambda i: optvecs(True, ((False, False), (False, True)),
                              [[("maxsize", ())], [("mincost", ())]]))
        if thorough:
            add("B two-sided x {unit,cap2,lectight} x pc x stab x {none}",
                I.family_B(True, profiles=P3), lambda i: optvecs(True, ALL4, none))
            add("B one-sided x P4 x pc x {none}",
                I.family_B(False), lambda i: optvecs(False, NOSTAB, none))
            add("C 3x3 restricted x {unit,cap2} x pc x stab x {none}",
                I.family_C(True, profiles=("unit", "cap2")),
                lambda i: optvecs(True, ALL4, none))
            add("A two-sided x P x pc x stab x 9 default singles",
                with_profiles(structs_small(True, I.SIZES_A, (1, 2))),
                lambda i: optvecs(True, ALL4, defaults))
            add("HR (2,3),(3,2) two-sided x {unit,cap2,h1lq1} x pc x stab x {none}",
                [x for x in I.family_HR(True, sizes=I.HR_SIZES[6:])
                 if x.pq[0] in ((0, 1), (0, 2), (1, 1))],
                lambda i: optvecs(True, ALL4, none))

    elif pid == "C02":
        P5 = ("unit", "cap2", "p1lq1", "lectight", "l1zero")
        P2 = ("unit", "cap2")
        add("A two-sided x P%s x pc x stab x {none} (+ without -twopl)" % ("" if thorough else "5"),
            with_profiles(structs_small(True, I.SIZES_A, (1, 2)),
                          None if thorough else P5),
            lambda i: optvecs(True, ALL4, none, also_without_twopl=True))
        add("L two-sided x {unit,lectight} x pc x stab x {none}",
            with_profiles(structs_small(True, I.SIZES_A, (3,)),
                          P3 if thorough else ("unit", "lectight")),
            lambda i: optvecs(True, ALL4, none))
        add("A(ns+np<=3), nl<=3, two-sided x P x (0,0) x all singles with all argument vectors; (1,1) x default singles",
            with_profiles(structs_small(True, TINY, (1, 2, 3))),
            lambda i: optvecs(True, ((False, False),), singles_for(i, True)) +
            optvecs(True, ((True, True),), defaults))
        add("A(2,2) two-sided x {unit,cap2} x (0,0) x 9 default singles + b>0 variants",
            with_profiles(structs_small(True, MID, (1, 2)), P4 if thorough else P2),
            lambda i: optvecs(True, DIAG2 if thorough else ((False, False),),
                              singles_for(i, False)))
        add("A(1,3),(3,1) two-sided x {unit,cap2} x (0,0) x singles",
            with_profiles(structs_small(True, LONG, (1, 2)), P4 if thorough else P2),
            lambda i: optvecs(True, DIAG2 if thorough else ((False, False),),
                              singles_for(i, False)))
        add("A one-sided x P4 x pc x {none} + (pc=0) x 9 default singles",
            with_profiles(structs_small(False, I.SIZES_A, (1, 2)), P4),
            lambda i: optvecs(False, NOSTAB, none) +
            optvecs(False, ((False, False),), defaults))
        add("Q[2,0] full quotas x (0,0) x {none,lmb,lsb,mincostlsb 1 1,mincost 1 1,maxsize}",
            q_family(True, (2, 0)),
            lambda i: optvecs(True, ((False, False),),
                              none + [[("lmb", ())], [("lsb", ())],
                                      [("mincostlsb", (1, 1))],
                                      [("mincost", (1, 1))],
                                      [("maxsize", ())]]))
        add("Q-structs x P x (0,0),(1,1) x 72 ordered pairs",
            [I.make3(ns, np_, nl, sp, le, lp, pq, lq3)
             for (ns, np_, nl, sp, le, lp) in I.Q_STRUCTS
             for _, pq, lq3 in I.quota_profiles3(ns, np_, nl, le)],
            lambda i: optvecs(True, DIAG2, pairs))
        add("W2 two-digit ids on both sides (11 x 11) x (0,0),(0,1) x {maxsize, mincost 1 1}",
            I.family_W2(),
            lambda i: optvecs(True, ((False, False), (False, True)),
                              [[("maxsize", ())], [("mincost", (1, 1))]]))
        add("HR two-sided x P x (pc x stab x {none}; (0,0),(1,1) x {9 default singles, mincost 1 1, minsqcost 0 1})",
            I.family_HR(True, sizes=I.HR_SIZES[:6]),
            lambda i: optvecs(True, ALL4, none) + optvecs(True, DIAG2, defaults +
                              [[("mincost", (1, 1))], [("minsqcost", (0, 1))]]))
        if thorough:
            add("A two-sided x P x pc x stab x all singles with all argument vectors",
                with_profiles(structs_small(True, I.SIZES_A, (1, 2))),
                lambda i: optvecs(True, ALL4, singles_for(i, True),
                                  also_without_twopl=True))
            add("A two-sided x P3 x (0,0),(1,1) x 72 ordered pairs",
                with_profiles(structs_small(True, I.SIZES_A, (1, 2)), P3),
                lambda i: optvecs(True, DIAG2, pairs))
            add("L two-sided x P x (0,0),(1,1) x singles",
                with_profiles(structs_small(True, I.SIZES_A, (3,))),
                lambda i: optvecs(True, DIAG2, singles_for(i, False)))
            add("Q all structs full quotas (lecturer quotas <=3 on nl=1) x options",
                itertools.chain(q_family(True, (0, 1, 4, 5)),
                                q_family(True, (2, 3), maxlq=3)),
                lambda i: optvecs(True, ((False, False),),
                                  none + [[("lmb", ())], [("lsb", ())],
                                          [("mincostlsb", (1, 1))],
                                          [("mincost", (1, 1))]]))
            add("B two-sided x P4 x (0,0),(1,1) x {none,lsb,mincost 1 1}",
                I.family_B(True),
                lambda i: optvecs(True, DIAG2, none + [[("lsb", ())],
                                                       [("mincost", (1, 1))]]))
            add("C 3x3 restricted x P3 x (0,0),(1,1) x {none,maxsize}",
                I.family_C(True),
                lambda i: optvecs(True, DIAG2, none + [[("maxsize", ())]]))
            add("HR (2,3),(3,2) two-sided x P x pc x stab x {none, defaults}",
                I.family_HR(True, sizes=I.HR_SIZES[6:]),
                lambda i: optvecs(True, ALL4, none + defaults))
    elif pid == "C05":
        st = ((False, True), (True, True))
        sizecrit = none + [[("maxsize", ())], [("minsize", ())]]
        add("A two-sided x P x pc x -stab x {none,maxsize,minsize}",
            with_profiles(structs_small(True, I.SIZES_A, (1, 2))),
            lambda i: optvecs(True, st, sizecrit))
        add("L two-sided x P3 x pc x -stab x {none}",
            with_profiles(structs_small(True, I.SIZES_A, (3,)), P3),
            lambda i: optvecs(True, st, none))
        add("Q[0,2,3] full quotas x pc x -stab x {none}",
            q_family(True, (0, 2, 3)),
            lambda i: optvecs(True, st, none))
        add("HR two-sided x P x pc x -stab x {none,maxsize,minsize}",
            I.family_HR(True, sizes=I.HR_SIZES[:6]),
            lambda i: optvecs(True, st, sizecrit))
        add("M medium structured (4-5 students, 4 projects, 2-3 lecturers) x pc x -stab x {none,maxsize,minsize}",
            I.family_M(), lambda i: optvecs(True, st, sizecrit))
        add("W3 ids above 256 (302 projects, contested 257/258 and 301/302, control 11/12) x -stab x {none,maxsize,minsize}",
            I.family_W3(), lambda i: optvecs(True, ((False, True),), sizecrit))
        add("F4 (student lists over four projects) x {unit,cap2} x -stab x {none,maxsize}",
            I.family_F4(profiles=("unit", "cap2")),
            lambda i: optvecs(True, ((False, True),), none + [[("maxsize", ())]]))
        if thorough:
            add("B two-sided x P4 x pc x -stab x {none,maxsize,minsize}",
                I.family_B(True), lambda i: optvecs(True, st, sizecrit))
            add("C 3x3 restricted x P3 x pc x -stab x {none,maxsize}",
                I.family_C(True),
                lambda i: optvecs(True, st, none + [[("maxsize", ())]]))
            add("Q[1,4,5] full quotas x pc x -stab x {none}",
                q_family(True, (1, 4, 5)), lambda i: optvecs(True, st, none))
            add("L two-sided x P x pc x -stab x {none,maxsize,minsize}",
                with_profiles(structs_small(True, I.SIZES_A, (3,))),
                lambda i: optvecs(True, st, sizecrit))
            add("HR (2,3),(3,2) two-sided x P x pc x -stab x {none,maxsize,minsize}",
                I.family_HR(True, sizes=I.HR_SIZES[6:]),
                lambda i: optvecs(True, st, sizecrit))
    elif pid == "C03":
        P2 = ("unit", "cap2")
        add("A(ns+np<=3), nl<=3, two-sided x P x (0,0) x all singles with all argument vectors; (1,1),(0,1) x default singles",
            with_profiles(structs_small(True, TINY, (1, 2, 3))),
            lambda i: optvecs(True, ((False, False),), singles_for(i, True)) +
            optvecs(True, ((True, True), (False, True), (True, False)), defaults))
        add("A(2,2) two-sided x {unit,cap2,lectight} x (0,0) x singles (b>0 variants)",
            with_profiles(structs_small(True, MID, (1, 2)), P4 if thorough else P3),
            lambda i: optvecs(True, ALL4 if thorough else ((False, False),),
                              singles_for(i, thorough), also_without_twopl=thorough))
        add("A(1,3),(3,1) two-sided x {unit,cap2} x (0,0) x all singles with all argument vectors (gen/gre cut-offs up to R=3)",
            with_profiles(structs_small(True, LONG, (1, 2)), P4 if thorough else P2),
            lambda i: optvecs(True, DIAG2 if thorough else ((False, False),),
                              singles_for(i, True)))
        add("A one-sided x P4 x (0,0) x 9 default singles; pc x {maxsize,mincost}",
            with_profiles(structs_small(False, I.SIZES_A, (1, 2)), P4),
            lambda i: optvecs(False, ((False, False),), defaults) +
            optvecs(False, ((True, False),), [[("maxsize", ())], [("mincost", ())]]))
        add("Q[2,0] full quotas x (0,0) x {lmb,lsb,mincostlsb 1 1,mincostlsb 1 2,mincost 1 1}",
            q_family(True, (2, 0)),
            lambda i: optvecs(True, ((False, False),),
                              [[("lmb", ())], [("lsb", ())],
                               [("mincostlsb", (1, 1))], [("mincostlsb", (1, 2))],
                               [("mincost", (1, 1))]]))
        add("HR two-sided x P x (0,0),(1,1) x {9 default singles, mincost 1 1, minsqcost 0 1, gre 1}",
            I.family_HR(True, sizes=I.HR_SIZES[:6]),
            lambda i: optvecs(True, DIAG2, defaults +
                              [[("mincost", (1, 1))], [("minsqcost", (0, 1))],
                               [("gre", (1,))]]))
        add("F4 (student lists over four projects, incl. three- and four-way ties) x {plast-lq1uq2,p1lq1} x (0,0) x {mincost,gre,gen}",
            I.family_F4(profiles=("plast-lq1uq2", "p1lq1")),
            lambda i: optvecs(True, ((False, False),),
                              [[("mincost", ())], [("gre", ())], [("gen", ())]]))
        add("Q-structs x P x (0,0) x 9 default singles given at position 4 (a single criterion need not be at position 1)",
            [I.make3(ns, np_, nl, sp, le, lp, pq, lq3)
             for (ns, np_, nl, sp, le, lp) in I.Q_STRUCTS
             for _, pq, lq3 in I.quota_profiles3(ns, np_, nl, le)],
            lambda i: [(True, False, False, tuple(c), (4,)) for c in defaults])
        add("A(2,3) nl=1 two-sided x {unit} x (0,0) x {gre, gen, gre 2, gen 2} (profiles with a zero strictly inside need rank 3)",
            with_profiles(structs_small(True, [(2, 3)], (1,)), ("unit",)),
            lambda i: optvecs(True, ((False, False),),
                              [[("gre", ())], [("gen", ())]] +
                              ([[("gre", (2,))], [("gen", (2,))]] if ref.R(i) >= 2 else [])))
        add("M medium structured (5 students%s, 4 projects, 2-3 lecturers, cycles/crossings/ties) x (0,0) x {gre, gen, gre 2, mincost 1 1, minsqcost 1 2, lsb, mincostlsb 1 2}" % (" and 4" if thorough else ""),
            I.family_M(sizes=(4, 5) if thorough else (5,)),
            lambda i: optvecs(True, ((False, False),),
                              [[("gre", ())], [("gen", ())], [("gre", (2,))],
                               [("mincost", (1, 1))], [("minsqcost", (1, 2))],
                               [("lsb", ())], [("mincostlsb", (1, 2))]]))
        wc = [[("mincost", (1, 2))], [("mincost", (2, 1))],
              [("minsqcost", (1, 2))], [("minsqcost", (2, 1))]]
        add("HR (3,2)%s two-sided x {h1lq2uq3,lq1uq2%s} x (0,0) x weighted cost criteria (1,2),(2,1) "
            "(lower quotas force assignments, so weights matter)" % (
                (",(2,3)", ",h1lq1") if thorough else ("", "")),
            [x for x in I.family_HR(True, sizes=I.HR_SIZES[6:] if thorough else [(3, 2)])
             if x.pq[0] in ((2, 3), (1, 2)) or (thorough and x.pq[0] == (1, 1))],
            lambda i: optvecs(True, ((False, False),), wc))
        if thorough:
            add("A two-sided without -twopl x P3 x (0,0) x singles b>0",
                with_profiles(structs_small(True, I.SIZES_A, (1, 2)), P3),
                lambda i: optvecs(False, ((False, False),),
                                  [[("mincost", (1, 1))], [("minsqcost", (1, 2))],
                                   [("mincostlsb", (1, 1))]]))
            add("L two-sided x P x (0,0),(1,1) x singles",
                with_profiles(structs_small(True, I.SIZES_A, (3,))),
                lambda i: optvecs(True, DIAG2, singles_for(i, False)))
            add("B two-sided x {unit,cap2} x (0,0) x 9 default singles + gen/gre cut-offs",
                I.family_B(True, profiles=P2),
                lambda i: optvecs(True, ((False, False),), defaults +
                                  [[("gen", (2,))], [("gre", (1,))], [("gre", (2,))],
                                   [("mincost", (1, 1))]]))
            add("Q all structs x (0,0) x load criteria",
                q_family(True, (1, 3, 4, 5)),
                lambda i: optvecs(True, ((False, False),),
                                  [[("lmb", ())], [("lsb", ())], [("mincostlsb", (1, 1))]]))
            add("HR (2,3),(3,2) two-sided x {unit,cap2} x (0,0),(1,1) x defaults",
                [x for x in I.family_HR(True, sizes=I.HR_SIZES[6:])
                 if x.pq[0] in ((0, 1), (0, 2)) and len(set(x.pq)) == 1],
                lambda i: optvecs(True, DIAG2, defaults))

    elif pid == "C04":
        P2 = ("unit", "cap2")
        qs = [I.make3(ns, np_, nl, sp, le, lp, pq, lq3)
              for (ns, np_, nl, sp, le, lp) in I.Q_STRUCTS
              for _, pq, lq3 in I.quota_profiles3(ns, np_, nl, le)]
        sel = [("maxsize", "mincost"), ("mincost", "maxsize"), ("maxsize", "gen"),
               ("gen", "maxsize"), ("maxsize", "gre"), ("gre", "gen"),
               ("lsb", "maxsize"), ("maxsize", "lsb"), ("minsize", "gre"),
               ("lmb", "mincost"), ("mincostlsb", "maxsize"), ("minsqcost", "maxsize"),
               ("gre", "minsize"), ("lmb", "lsb"), ("lsb", "lmb"), ("mincost", "minsqcost")]
        selpairs = [[(a, ()), (b, ())] for a, b in sel]

        def gapped(i):
            # positions with gaps, flags given in the reverse of position order
            out = []
            for a, b in pairs:
                out.append((True, False, False, (b, a), (7, 3)))
            return out

        add("Q-structs x P x (0,0),(1,1) x all 72 ordered pairs",
            qs, lambda i: optvecs(True, DIAG2, pairs))
        add("Q-structs x P x (0,0) x all 72 ordered pairs at positions (3,7), flags in reverse order",
            qs, gapped)
        add("A(ns+np<=3), nl<=2, two-sided x P x (0,0) x all 72 ordered pairs",
            with_profiles(structs_small(True, TINY, (1, 2))),
            lambda i: optvecs(True, ((False, False),), pairs))
        add("A(2,2) two-sided x {unit,cap2} x (0,0) x 16 conflict-prone pairs",
            with_profiles(structs_small(True, MID, (1, 2)), P2),
            lambda i: optvecs(True, ((False, False),), selpairs))
        add("A(1,3),(3,1) two-sided x {unit,cap2} x (0,0) x 16 conflict-prone pairs",
            with_profiles(structs_small(True, LONG, (1, 2)), P2),
            lambda i: optvecs(True, ((False, False),), selpairs))
        argpairs = [[("mincost", (0, 1)), ("minsqcost", ())],
                    [("minsqcost", (0, 1)), ("mincost", ())],
                    [("mincost", (2, 1)), ("minsqcost", (1,))],
                    [("mincostlsb", (0, 1)), ("mincost", ())],
                    [("mincost", (1, 1)), ("mincostlsb", (1, 2))],
                    [("mincostlsb", (2, 1)), ("lsb", ())],
                    [("gen", (2,)), ("gre", (1,))],
                    [("gre", (1,)), ("gen", (2,))],
                    [("minsqcost", (1, 1)), ("mincost", (1, 0))],
                    [("lmb", ()), ("mincostlsb", (0, 1))]]
        add("Q-structs x P x (0,0),(1,1) x 6 pairs with argument variants",
            [q for q in qs if ref.R(q) >= 2],
            lambda i: optvecs(True, DIAG2, argpairs))
        long_lists = [
            [("maxsize", ()), ("gre", ()), ("lsb", ())],
            [("maxsize", ()), ("gen", ()), ("mincost", (1, 1)), ("lmb", ()), ("lsb", ())],
            [("lsb", ()), ("maxsize", ()), ("gre", (2,)), ("mincost", ()), ("minsqcost", (1, 1)),
             ("gen", ())],
            [(c, ()) for c in ("maxsize", "minsize", "gen", "gre", "mincost", "minsqcost",
                               "lmb", "lsb", "mincostlsb")],
            [(c, ()) for c in ("mincostlsb", "lsb", "lmb", "minsqcost", "mincost", "gre",
                               "gen", "minsize", "maxsize")],
        ]
        stab_triples = [[("gre", ()), ("mincost", ()), ("maxsize", ())],
                        [("gre", ()), ("minsqcost", (1, 1)), ("maxsize", ())],
                        [("gen", ()), ("mincost", ()), ("maxsize", ())],
                        [("gre", (2,)), ("lsb", ()), ("maxsize", ())],
                        [("minsize", ()), ("gre", ()), ("mincost", (1, 1))]]
        add("M medium structured x -stab x 5 triples where a size criterion comes last",
            I.family_M(sizes=(4, 5) if thorough else (5,)),
            lambda i: optvecs(True, ((False, True),), stab_triples))
        add("HR two-sided (2,2),(3,1),(1,3) x {unit,cap2,lq1uq2} x -stab x the same triples",
            [x for x in I.family_HR(True, sizes=[(2, 2), (3, 1), (1, 3)])
             if x.pq[0] in ((0, 1), (0, 2), (1, 2))],
            lambda i: optvecs(True, ((False, True),),
                              [t for t in stab_triples
                               if not any(c[0] == "gre" and c[1] and c[1][0] > 9 for c in t)]))
        add("M medium structured (5 students%s) x (0,0),(0,1) x criteria lists of length 3, 5, 6 and all 9 (both directions)" % (" and 4" if thorough else ""),
            I.family_M(sizes=(4, 5) if thorough else (5,)),
            lambda i: optvecs(True, ((False, False), (False, True)), long_lists))
        if thorough:
            six = ("maxsize", "gen", "gre", "mincost", "lsb", "mincostlsb")
            triples = [[(a, ()), (b, ()), (c, ())] for a in six for b in six
                       for c in six if len({a, b, c}) == 3]
            add("Q-structs x P x (0,0) x 120 ordered triples",
                qs, lambda i: optvecs(True, ((False, False),), triples))
            add("A(ns+np<=3) two-sided x P3 x (0,0) x 120 ordered triples",
                with_profiles(structs_small(True, TINY, (1, 2)), P3),
                lambda i: optvecs(True, ((False, False),), triples))
            add("A(2,2) two-sided x P4 x (0,0),(1,1) x all 72 ordered pairs",
                with_profiles(structs_small(True, MID, (1, 2)), P4),
                lambda i: optvecs(True, DIAG2, pairs))
            add("B two-sided x {unit,cap2} x (0,0) x 12 pairs",
                I.family_B(True, profiles=P2),
                lambda i: optvecs(True, ((False, False),), selpairs[:12]))
            add("L two-sided x P3 x (0,0) x 16 pairs",
                with_profiles(structs_small(True, I.SIZES_A, (3,)), P3),
                lambda i: optvecs(True, ((False, False),), selpairs))
    else:
        raise ValueError(pid)

    def gen():
        for lst in parts:
            for it in lst:
                yield it

    return gen(), desc
