"""Work distribution over long-lived worker processes (fork, no per-execution
fork).  A work function maps one item to a `Tally`; tallies are merged."""
from __future__ import annotations

import itertools
import multiprocessing as mp
import os
import random
import sys
import time
import traceback


class VerdictDecided(BaseException):
    """Raised by Tally.violation once the violation budget of a worker is
    used up: the check's verdict is decided, further exploration only costs
    time (and may never end if the code under test degrades from call to call)."""


class Tally:
    """Mergeable counters + capped lists."""

    def __init__(self):
        self.c = {}            # counters
        self.sets = {}         # name -> set (distinct things, capped)
        self.violations = []   # list of dict
        self.samples = []      # list of JSON-able
        self.harness_errors = []
        self.fpcount = {}
        self.stop_raised = False

    def inc(self, k, n=1):
        self.c[k] = self.c.get(k, 0) + n

    def mx(self, k, v):
        if v > self.c.get(k, -10 ** 18):
            self.c[k] = v

    def add(self, name, item, cap=200000):
        s = self.sets.setdefault(name, set())
        if len(s) < cap:
            s.add(item)

    def violation(self, v, per_fp=2):
        fp = v.get("fingerprint", "?")
        n = self.fpcount.get(fp, 0)
        self.fpcount[fp] = n + 1
        if n < per_fp and len(self.fpcount) < 500:
            self.violations.append(v)
        self.inc("violations_total")
        if fp not in KNOWN_FPS:
            self.inc("new_violating_executions")
            if self.c["new_violating_executions"] >= VIOLATION_BUDGET and not self.stop_raised:
                self.stop_raised = True
                raise VerdictDecided()

    def sample(self, s, cap=3):
        if len(self.samples) < cap:
            self.samples.append(s)

    def merge(self, o, vcap=2000, scap=6):
        for k, v in o.c.items():
            if k.startswith("max_"):
                self.mx(k, v)
            else:
                self.c[k] = self.c.get(k, 0) + v
        for k, s in o.sets.items():
            self.sets.setdefault(k, set()).update(s)
        for v in o.violations:
            fp = v.get("fingerprint", "?")
            if self.fpcount.get(fp, 0) < 2 and len(self.violations) < vcap:
                self.violations.append(v)
            self.fpcount[fp] = self.fpcount.get(fp, 0) + 1
        for fp, n in o.fpcount.items():
            # counts of violations beyond the kept ones
            kept = sum(1 for v in o.violations if v.get("fingerprint", "?") == fp)
            self.fpcount[fp] = self.fpcount.get(fp, 0) + (n - kept)
        room = scap - len(self.samples)
        if room > 0:
            self.samples.extend(o.samples[:room])
        self.harness_errors.extend(o.harness_errors[:5])


_WORK = None
DEADLINE = None          # wall-clock cap for the whole check (set by the CLI for the
                         # thorough tier); when hit, workers stop taking new chunks and
                         # the evidence reports the cap and how many chunks were done
KNOWN_FPS = set()        # fingerprints of listed known findings (set by the CLI)
VIOLATION_BUDGET = 400   # per worker: once this many executions violated the
                         # property with unlisted fingerprints the verdict is
                         # decided; the worker stops and coverage is reported as cut


def _init(work, initfn):
    global _WORK
    _WORK = work
    sys.setrecursionlimit(10000)
    if initfn is not None:
        initfn()


ITEM_BUDGET = 1800.0     # seconds; a normal item takes milliseconds to seconds


class ItemTimeout(Exception):
    pass


def _item_alarm(signum, frame):
    raise ItemTimeout()


def _do_chunk(chunk):
    import signal
    t = Tally()
    for item in chunk:
        try:
            old = signal.signal(signal.SIGALRM, _item_alarm)
            signal.setitimer(signal.ITIMER_REAL, ITEM_BUDGET)
        except ValueError:
            old = None
        try:
            _WORK(item, t)
        except VerdictDecided:
            t.c["stopped_after_violation_budget"] = 1
            t.c["deadline_hit"] = 1
            break
        except ItemTimeout:
            # the code under test made the item run away (e.g. state that grows
            # from call to call): a verdict, not a harness problem
            t.inc("items_did_not_finish")
            t.violation({"fingerprint": "item-did-not-finish",
                         "what": "work item did not finish within %.0f s: %r" % (
                             ITEM_BUDGET, repr(item)[:400]), "item": repr(item)[:2000]})
        except Exception as e:    # harness problem, never a verdict
            t.harness_errors.append(
                "%s: %s\n%s" % (type(e).__name__, e, traceback.format_exc()[-1500:]))
        finally:
            if old is not None:
                signal.setitimer(signal.ITIMER_REAL, 0)
                signal.signal(signal.SIGALRM, old)
    return t


def chunks(it, n):
    it = iter(it)
    while True:
        c = list(itertools.islice(it, n))
        if not c:
            return
        yield c


def nproc():
    try:
        n = len(os.sched_getaffinity(0))
    except Exception:
        n = os.cpu_count() or 1
    return max(1, min(16, n))


_CHUNKS = None


def _do_static(w):
    """Worker w processes chunks w, w+P, w+2P, ... of the (inherited) list:
    the sequence of items each worker sees is a deterministic function of
    the item list, so a violation that depends on what the same process did
    before (state leaking between instances) fails the same way every run."""
    procs, deadline = _STATIC
    t = Tally()
    from . import lprun
    for j in range(w, len(_CHUNKS), procs):
        if deadline and time.time() > deadline:
            t.c["deadline_hit"] = 1
            t.c["time_cap_hit"] = 1
            t.inc("chunks_not_started", len(range(j, len(_CHUNKS), procs)))
            break
        t.inc("chunks_done")
        if t.c.get("new_violating_executions", 0) >= VIOLATION_BUDGET:
            t.c["deadline_hit"] = 1
            t.c["stopped_after_violation_budget"] = 1
            break
        if lprun.TIMEOUTS >= 3 or t.c.get("items_did_not_finish", 0) >= 1:
            # executions keep running away: stop this worker, the violations
            # already recorded decide the verdict; coverage is reported as cut
            t.c["deadline_hit"] = 1
            t.c["aborted_after_runaway_executions"] = 1
            break
        t.merge(_do_chunk(_CHUNKS[j]), vcap=400)
        if t.c.get("stopped_after_violation_budget"):
            break
    return t


_STATIC = None


def run(work, items, chunksize=20, procs=None, initfn=None, progress=None,
        deadline=None):
    """Apply work(item, tally) to all items in parallel; return merged Tally.
    Chunks are dealt round-robin to long-lived fork workers (static schedule).
    `deadline` (time.time() value): stop after it; the tally then carries
    c['deadline_hit']=1 and the caller must report a cap."""
    global _CHUNKS, _STATIC
    procs = procs or nproc()
    total = Tally()
    if deadline is None:
        deadline = DEADLINE
    if procs == 1:
        _init(work, initfn)
        for ch in chunks(items, chunksize):
            total.merge(_do_chunk(ch))
            if deadline and time.time() > deadline:
                total.c["deadline_hit"] = 1
                break
        return total
    _CHUNKS = list(chunks(items, chunksize))
    if os.environ.get("VERIF_REVERSE_ITEMS"):
        # development aid: exercise the families at the END of the list first
        _CHUNKS.reverse()
    _STATIC = (procs, deadline)
    ctx = mp.get_context("fork")
    try:
        with ctx.Pool(procs, initializer=_init, initargs=(work, initfn)) as pool:
            for t in pool.imap_unordered(_do_static, range(procs), chunksize=1):
                total.merge(t)
    finally:
        _CHUNKS = None
    return total


def seeded_shuffle(items, seed):
    items = list(items)
    random.Random(seed).shuffle(items)
    return items
