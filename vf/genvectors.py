"""Accepted generator argument vectors (as dicts) and their argv rendering."""
from __future__ import annotations

import itertools
import math


def argv_of(a, outdir=None):
    """argv tail (without -o) for an argument dict."""
    t = ["-numinst", str(a.get("numinst", 1)), "-mp", a["mp"], "-n1", str(a["n1"])]
    if a["mp"] != "sm":
        t += ["-n2", str(a["n2"])]
    if a["mp"] == "spa":
        t += ["-n3", str(a["n3"])]
    t += ["-pmin", str(a["pmin"]), "-pmax", str(a["pmax"])]
    if a.get("twopl"):
        t += ["-twopl"]
    if a.get("t1_given", True) and a.get("t1") is not None:
        t += ["-t1", repr(a["t1"])]
    if a["mp"] != "ha" and a.get("t2") is not None and a.get("t2_given", True):
        t += ["-t2", repr(a["t2"])]
    if a.get("skew_given"):
        t += ["-skew", repr(a["skew"])]
    if a["mp"] != "sm":
        if a.get("lq_given", True):
            t += ["-lq", str(a["lq"])]
        t += ["-uq", str(a["uq"])]
    if a["mp"] == "spa":
        if a.get("llq_given", True):
            t += ["-llq", str(a["llq"])]
        if a.get("lt_given", True):
            t += ["-lt", str(a["lt"])]
        t += ["-luq", str(a["luq"])]
    return t


def base(mp, n1, n2, n3, pmin, pmax, t1, t2, twopl, lq=None, uq=None,
         llq=0, lt=None, luq=None, skew=1.0, numinst=1):
    if mp == "sm":
        n2 = n1
        lq, uq = 0, n1
    if uq is None:
        uq = n2
    if lq is None:
        lq = 0
    a = dict(mp=mp, n1=n1, n2=n2, n3=n3, pmin=pmin, pmax=pmax, t1=float(t1),
             t2=float(t2) if mp != "ha" else 0.0, twopl=twopl, lq=lq, uq=uq,
             skew=float(skew), numinst=numinst, skew_given=(skew != 1.0))
    if mp == "spa":
        a["luq"] = luq if luq is not None else max(n3, 1) * 2
        a["lt"] = lt if lt is not None else min(a["luq"], n3)
        a["llq"] = llq
    else:
        a["llq"], a["lt"], a["luq"] = 0, 0.0, None
    return a


def schedule_bound(a):
    """Upper bound on the number of RNG answer sequences of one instance."""
    n1, n2 = a["n1"], a["n2"]
    per_agent = sum(math.perm(n2, l) for l in range(a["pmin"], a["pmax"] + 1))
    total = math.factorial(n2) * per_agent ** n1
    if 0 < a["t1"] < 1:
        total *= 2 ** (n1 * a["pmax"])
    if a["twopl"]:
        m = a["n3"] if a["mp"] == "spa" else n2
        # worst case: every second-side agent is listed by everybody
        cells = n1 * min(a["pmax"], m) if a["mp"] == "spa" else n1 * a["pmax"]
        # product of factorials of list lengths summing to `cells`, each <= n1
        full, rest = divmod(cells, n1)
        total *= math.factorial(n1) ** min(full, m) * (math.factorial(rest) if full < m else 1)
        if 0 < a["t2"] < 1:
            total *= 2 ** cells
    return total ** a.get("numinst", 1)


def rng_vectors(tier):
    """Vectors explored over every RNG answer sequence."""
    out = []
    T01 = (0.0, 1.0)
    big = tier == "thorough"
    nmax = 3
    for mp in ("ha", "hr", "sm", "spa"):
        for n1 in range(1, nmax + 1):
            n2s = [n1] if mp == "sm" else range(1, nmax + 1)
            for n2 in n2s:
                n3s = range(1, nmax + 1) if mp == "spa" else [None]
                for n3 in n3s:
                    for pmin in range(1, n2 + 1):
                        for pmax in range(pmin, n2 + 1):
                            twos = [False] if mp == "ha" else [True] if mp in ("sm", "hr") \
                                else [False, True]
                            for twopl in twos:
                                t2s = T01 + (0.5,) if twopl else (0.0,)
                                for t1 in T01 + (0.5,):
                                    for t2 in t2s:
                                        out.append(base(mp, n1, n2, n3, pmin, pmax,
                                                        t1, t2, twopl))
    # skew and numinst on the smallest vectors
    for skew in (0.25, 5.0):
        out.append(base("hr", 2, 2, None, 1, 2, 0.0, 0.0, True, skew=skew))
        out.append(base("ha", 2, 3, None, 1, 2, 0.0, 0.0, False, skew=skew))
        out.append(base("spa", 2, 2, 2, 1, 2, 0.0, 1.0, True, skew=skew))
    # shapes beyond 3: uneven project/lecturer shares (n2 % n3 in 1..n3-2)
    for n2, n3 in ((4, 3), (5, 3)):
        for twopl in (False, True):
            out.append(base("spa", 1, n2, n3, 1, 1, 0.0, 0.0, twopl))
            out.append(base("spa", 2, n2, n3, 1, 1, 0.0, 1.0 if twopl else 0.0, twopl))
            out.append(base("spa", 1, n2, n3, 2, 2, 1.0, 0.0, twopl))
    out.append(base("spa", 1, 4, 3, 3, 3, 0.0, 0.0, True))
    out.append(base("spa", 1, 4, 2, 3, 3, 0.0, 0.0, True))
    out.append(base("hr", 1, 4, None, 1, 2, 0.0, 0.0, True))
    out.append(base("hr", 4, 1, None, 1, 1, 0.0, 1.0, True))
    out.append(base("ha", 1, 4, None, 2, 3, 1.0, 0.0, False))
    # optional parameters omitted (defaults) and lower quotas / targets given
    for mp in ("ha", "hr", "spa", "sm"):
        for variant in range(4):
            a = base(mp, 2, 2, 2 if mp == "spa" else None, 1, 2, 0.0, 0.0,
                     mp in ("hr", "sm") or (mp == "spa" and variant % 2 == 1))
            a["t1_given"] = variant in (2,)
            a["t2_given"] = variant in (2,)
            a["lq_given"] = variant in (1, 2)
            if mp == "spa":
                a["lt_given"] = variant in (1,)
                a["llq_given"] = variant in (1,)
                if not a["lt_given"]:
                    a["lt"] = 0.0
                    a["llq"] = 0
            out.append(a)
    for lq, llq, lt in ((1, 1, 2), (2, 2, 2), (0, 1, 1), (2, 0, 3)):
        for n3 in (1, 2, 3):
            for twopl in (False, True):
                out.append(base("spa", 2, 2, n3, 1, 2, 0.0, 0.0, twopl,
                                lq=lq, uq=3, llq=llq, lt=lt, luq=max(lt, n3) + 1))
                out.append(base("spa", 1, 2, n3, 1, 1, 0.0, 0.0, twopl,
                                lq=lq, uq=3, llq=llq, lt=lt, luq=max(lt, n3) + 1))
    # tight lecturer capacity (full lecturer who already supervises the student)
    for n1, n2, n3 in ((1, 2, 1), (2, 2, 1), (2, 3, 2), (1, 3, 1)):
        for t1 in (0.0, 1.0):
            out.append(base("spa", n1, n2, n3, 2, min(3, n2), t1, 0.0, True, uq=n2, luq=n3, lt=n3))
            out.append(base("spa", n1, n2, n3, 2, 2, t1, 1.0, True, uq=n2 + 1, luq=n3 + 1, lt=1))
    # lower quotas together with ties on either side (weak stability + quotas)
    for t1, t2 in ((1.0, 0.0), (0.5, 0.0), (0.0, 1.0), (1.0, 1.0)):
        for lq in (1, 2):
            out.append(base("hr", 1, 2, None, 1, 2, t1, t2, True, lq=lq, uq=2))
            out.append(base("hr", 2, 2, None, 2, 2, t1, t2, True, lq=lq, uq=3))
            out.append(base("spa", 1, 2, 1, 1, 2, t1, t2, True, lq=lq, uq=2, llq=0, lt=1, luq=2))
            out.append(base("spa", 2, 2, 2, 2, 2, t1, t2, True, lq=lq, uq=3, llq=1, lt=2, luq=3))
    for lq in (1, 2):
        out.append(base("hr", 2, 2, None, 1, 2, 0.0, 0.0, True, lq=lq, uq=3))
        out.append(base("ha", 2, 2, None, 1, 2, 0.0, 0.0, False, lq=lq, uq=3))
    out.append(base("hr", 1, 2, None, 1, 2, 0.5, 0.5, True, numinst=2))
    out.append(base("spa", 2, 2, 1, 1, 1, 0.0, 0.0, True, numinst=2))
    out.append(base("ha", 2, 2, None, 1, 1, 1.0, 0.0, False, numinst=2))
    return out


def quota_vectors():
    """Quota sums over their whole admissible range, explored with the default
    RNG answers only (quota spreading does not consume randomness)."""
    out = []
    for mp in ("ha", "hr"):
        for n1, n2 in ((2, 1), (2, 2), (2, 3), (3, 3)):
            for uq in range(n2, 2 * n2 + 2):
                for lq in range(0, uq + 1):
                    out.append(base(mp, n1, n2, None, 1, 1, 0.0, 0.0, mp == "hr",
                                    lq=lq, uq=uq))
    for n2, n3 in ((4, 3), (5, 3), (7, 3), (6, 4), (7, 5), (3, 5)):
        for twopl in (False, True):
            a = base("spa", 2, n2, n3, 1, 1, 0.0, 0.0, twopl, uq=n2 + 1, luq=n3 + 2, lt=n3 + 1,
                     llq=1)
            out.append(a)
            b = dict(a)
            b["lt_given"] = False
            b["llq_given"] = False
            b["lq_given"] = False
            b["lt"], b["llq"] = 0.0, 0
            out.append(b)
    # two-digit counts and quota sums (default RNG answers)
    for n1, n2 in ((2, 10), (11, 3), (10, 12)):
        for uq in (n2, n2 + 9, 2 * n2 + 1):
            for lq in sorted({0, min(9, uq), uq}):
                out.append(base("hr", n1, n2, None, 1, min(2, n2), 0.0, 0.0, True, lq=lq, uq=uq))
                out.append(base("ha", n1, n2, None, 1, min(3, n2), 1.0, 0.0, False, lq=lq, uq=uq))
    for n2, n3 in ((10, 3), (12, 5), (11, 11), (9, 10)):
        for twopl in (False, True):
            out.append(base("spa", 3, n2, n3, 1, 3, 0.0, 1.0 if twopl else 0.0, twopl,
                            lq=9, uq=2 * n2 + 1, llq=n3 - 1, lt=n3 + 9, luq=n3 + 10))
    out.append(base("sm", 10, None, None, 1, 10, 0.0, 0.0, True))
    out.append(base("sm", 11, None, None, 10, 11, 1.0, 1.0, True))
    for n2, n3 in ((1, 1), (2, 1), (2, 2), (3, 2), (2, 3), (3, 3), (1, 3)):
        for uq in range(n2, 2 * n2 + 1):
            for lq in (0, 1, uq):
                for luq in range(1, 2 * n3 + 2):
                    for lt in range(0, luq + 1):
                        for llq in range(0, lt + 1):
                            out.append(base("spa", 2, n2, n3, 1, 1, 0.0, 0.0, True,
                                            lq=lq, uq=uq, llq=llq, lt=lt, luq=luq))
    return out
