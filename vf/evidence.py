"""Evidence files, known findings, replay artefacts, verdict printing."""
from __future__ import annotations

import hashlib
import json
import os
import time

VERIF = os.path.dirname(os.path.dirname(os.path.abspath(__file__)))
_OUT = os.environ.get("VERIF_OUT_DIR") or VERIF      # scratch output for seeded-change trials
EVID = os.path.join(_OUT, "evidence")
REPLAYS = os.path.join(_OUT, "replays")
KNOWN = os.path.join(VERIF, "known_findings.json")


def seed():
    try:
        return int(os.environ.get("VERIF_SEED", "0"))
    except ValueError:
        return 0


def load_known():
    try:
        with open(KNOWN) as f:
            return json.load(f)
    except FileNotFoundError:
        return {"findings": [], "fixed": []}


def known_for(pid):
    """Map fingerprint -> what, for the listed (unfixed) findings of pid."""
    return {e["fingerprint"]: e["what"] for e in load_known().get("findings", [])
            if e["property"] == pid}


def write_replay(pid, payload):
    d = os.path.join(REPLAYS, pid)
    os.makedirs(d, exist_ok=True)
    blob = json.dumps(payload, sort_keys=True, default=str)
    name = hashlib.blake2b(blob.encode(), digest_size=8).hexdigest() + ".json"
    path = os.path.join(d, name)
    with open(path, "w") as f:
        json.dump(payload, f, indent=1, sort_keys=True, default=str)
    return path


def write_evidence(pid, tier, level, coverage, assumptions, wall_s, violations):
    os.makedirs(EVID, exist_ok=True)
    ev = {"property_id": pid, "tier": tier, "seed": seed(), "level": level,
          "coverage": coverage, "assumptions": assumptions,
          "wall_s": round(wall_s, 3), "violations": violations}
    path = os.path.join(EVID, pid + ".json")
    tmp = path + ".tmp%d" % os.getpid()
    with open(tmp, "w") as f:
        json.dump(ev, f, indent=1, sort_keys=True, default=str)
    os.replace(tmp, path)
    return path


def conclude(pid, tier, level, tally, coverage, assumptions, t0,
             max_report=5):
    """Shared tail of every check: classify violations against the known
    findings, write replays + evidence, print verdict lines, return exit code.

    Each violation dict needs 'fingerprint' and 'what'; the rest is the replay
    payload."""
    if tally.harness_errors:
        print("HARNESS-ERROR property=%s (%d)" % (pid, len(tally.harness_errors)))
        for h in tally.harness_errors[:3]:
            print(h)
        coverage = dict(coverage)
        coverage["harness_errors"] = len(tally.harness_errors)
        coverage["harness_error_messages"] = [h[:1500] for h in tally.harness_errors[:3]]
        write_evidence(pid, tier, level, coverage, assumptions,
                       time.time() - t0, -1)
        return 2
    known = known_for(pid)
    seen_known = {}
    new = {}
    for v in tally.violations:
        fp = v.get("fingerprint", "?")
        if fp in known:
            seen_known.setdefault(fp, v)
        else:
            new.setdefault(fp, v)
    for fp, v in sorted(seen_known.items()):
        print("KNOWN-FINDING: property=%s %s [%s]" % (pid, known[fp], fp))
    nviol = 0
    for fp, v in sorted(new.items()):
        nviol += 1
        if nviol > max_report:
            continue
        payload = dict(v)
        payload["property"] = pid
        path = write_replay(pid, payload)
        print("VIOLATION property=%s replay=%s" % (pid, path))
        print("  fingerprint: %s" % fp)
        print("  what: %s" % str(v.get("what"))[:400])
    coverage = dict(coverage)
    coverage["known_findings_seen"] = sorted(seen_known)
    coverage["new_violation_fingerprints"] = sorted(new)[:20]
    coverage["violating_executions_total"] = tally.c.get("violations_total", 0)
    if tally.c.get("time_cap_hit"):
        coverage["exhaustive"] = False
        coverage["time_cap"] = (
            "wall-clock cap of the thorough tier hit (VERIF_THOROUGH_BUDGET_S, default 3000 s): "
            "%d work chunks completed, %d not started; chunks are dealt round-robin in list "
            "order, so every family listed before the cut was covered completely and the "
            "counts above are those of the completed chunks only"
            % (tally.c.get("chunks_done", 0), tally.c.get("chunks_not_started", 0)))
    if tally.c.get("stopped_after_violation_budget") or \
            tally.c.get("aborted_after_runaway_executions"):
        coverage["exhaustive"] = False
        coverage["stopped_early"] = ("workers stopped after the violation budget / run-away "
                                     "executions; the space was not fully explored")
    write_evidence(pid, tier, level, coverage, assumptions,
                   time.time() - t0, len(new))
    if new:
        print("RESULT property=%s FAILED: %d distinct violation fingerprint(s), "
              "%d violating executions" % (pid, len(new),
                                           tally.c.get("violations_total", 0)))
        return 1
    print("RESULT property=%s held on everything explored (%s)" % (
        pid, ", ".join("%s=%s" % (k, coverage[k]) for k in
                       ("states", "transitions", "evaluations",
                        "distinct_nontrivial", "traces_validated_against_impl")
                       if k in coverage)))
    return 0
