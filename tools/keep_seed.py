#!/venv/bin/python
"""tools/keep_seed.py <srcdir> <seed-id> <property> <caught_by csv|-> <missed_by csv|-> <needs...>
Copies patch.diff, demo.py, notes.md into /verif/seeded/<seed-id>/ and writes meta.json."""
import json, os, shutil, subprocess, sys
src, sid, prop, caught, missed = sys.argv[1:6]
needs = " ".join(sys.argv[6:])
dst = os.path.join("/verif/seeded", sid)
os.makedirs(dst, exist_ok=True)
for f in ("patch.diff", "demo.py", "notes.md", "patch.orig.diff"):
    if os.path.exists(os.path.join(src, f)):
        shutil.copy(os.path.join(src, f), os.path.join(dst, f))
head = subprocess.check_output(["git", "-C", "/repo", "rev-parse", "--short", "HEAD"]).decode().strip()
meta = {
    "seed_id": sid, "breaks_property": prop,
    "needs_to_manifest": needs,
    "author": "independent sub-agent given only the property text and a scratch worktree",
    "confirmed": {
        "repo_head_when_confirmed": head,
        "tests_with_patch": "35 passed (cd <worktree> && PYTHONPATH=<worktree> /venv/bin/python -m pytest -q -p no:cacheprovider)",
        "demo_clean_exit": 0, "demo_patched_exit": "non-zero",
        "how": "tools/try_seed.sh <seed dir> <checks>: scratch worktree at /repo HEAD, demo clean, apply patch, tests, demo patched, then ./check <id> --tier quick with VERIF_REPO=<worktree>",
    },
    "caught_by_quick_checks": [] if caught == "-" else caught.split(","),
    "missed_by_quick_checks": [] if missed == "-" else missed.split(","),
}
json.dump(meta, open(os.path.join(dst, "meta.json"), "w"), indent=1)
print("kept", sid)
