#!/venv/bin/python
"""Regenerates /verif/MANIFEST.json from the table below and validates it."""
import json
import os
import sys

HERE = os.path.dirname(os.path.dirname(os.path.abspath(__file__)))

HIST_NOTE = (" Also explored from non-initial process states: static worker schedule, sentinel "
             "re-runs of the first item after other items, and two Solver objects alive at once "
             "(both constructed, then solved in either order).")

LP_NOTE = ("Trusted base: vf/ref.py (reference semantics by enumeration of all "
           "assignments), vf/fakecbc.py (exact integer enumeration of the MPS "
           "file PuLP wrote, bound to CBC 2.10.3 by conformance runs counted in "
           "traces_validated_against_impl), PuLP's own MPS writer and solution "
           "reader (executed, not modelled). Bounded to the instance families "
           "named in the evidence (<=3 students/projects/lecturers).")

CHECKS = {
    "C02": dict(
        category="model_checking",
        text="Stateless exploration of the real Solver(argv).solve()/get_results*() for every "
             "instance of the listed small families x every admissible option vector; at the "
             "last solve every optimal solution class the MILP back end may return is answered "
             "in turn. Oracle: status Optimal+matching iff the reference finds a feasible "
             "matching by enumeration; no exception. Exhaustive inside the bounds.",
        design_ref="DESIGN.md 5 C02",
        technique="bounded-exhaustive stateless exploration of the implementation under an "
                  "owned MILP back end (all optimal answers enumerated) vs enumeration oracle",
        note=LP_NOTE + HIST_NOTE),
    "C01": dict(
        category="model_checking",
        text="Stateless exploration of the real solver for every instance x option vector of the "
             "families; every optimal solution class the back end may return at the last solve is "
             "answered in turn (with no criterion: every feasible 0/1 point). Oracle on the printed "
             "matching line and long listing: reference validity (listed project, project and "
             "lecturer quotas, closure rule, one project per student).",
        design_ref="DESIGN.md 5 C01",
        technique="bounded-exhaustive stateless exploration under an owned MILP back end, all optimal answers enumerated",
        note=LP_NOTE + HIST_NOTE),
    "C03": dict(
        category="model_checking",
        text="For each single criterion with every argument vector of the small domain, every "
             "optimal class the back end may return is explored and the criterion's value on the "
             "printed matching is compared with the optimum over the reference feasible set.",
        design_ref="DESIGN.md 5 C03",
        technique="bounded-exhaustive stateless exploration under an owned MILP back end vs enumeration optimum",
        note=LP_NOTE),
    "C04": dict(
        category="model_checking",
        text="Ordered pairs (thorough: triples) of criteria with gapped positions and permuted flag "
             "order; every optimal class of the final integer program must lie in the lexicographic "
             "optimum set computed by enumeration.",
        design_ref="DESIGN.md 5 C04",
        technique="bounded-exhaustive stateless exploration under an owned MILP back end vs lexicographic enumeration optimum",
        note=LP_NOTE),
    "C05": dict(
        category="model_checking",
        text="With -stab and no criterion the set of optimal classes is the whole feasible set of "
             "the integer program; it is compared, in both directions, with the set of valid "
             "matchings without SPA-STL blocking pair computed from the definition; with "
             "maxsize/minsize the printed size is compared with the reference extremum. Also: "
             "re-solve histories (solve,get,get,solve,get) on one Solver and two Solvers alive "
             "at once, judged by the same oracle.",
        design_ref="DESIGN.md 5 C05",
        technique="bounded-exhaustive enumeration of all 0/1 points of the real integer program vs blocking-pair definition",
        note=LP_NOTE + HIST_NOTE),
    "C06": dict(
        category="exploration",
        text="Every two-sided instance of the families is loaded through the real Solver and "
             "Model.check_stability is called on every capacity-respecting assignment; result must "
             "be a bool equal to the reference 'no blocking pair'. Plus end-to-end: every -stab run "
             "prints stability_correct: True for every optimal class.",
        design_ref="DESIGN.md 5 C06",
        technique="bounded-exhaustive input enumeration against the definition",
        note="Trusted base: vf/ref.py blocking-pair definition (cross-checked against native HR definition at setup). Bounded to the listed families."),
    "C11": dict(
        category="model_checking",
        text="Same exploration as C01 (every feasible matching is reported once when no criterion "
             "is given); all statistics of the short and long text and all three listings are "
             "recomputed from the abstract instance and the printed matching line.",
        design_ref="DESIGN.md 5 C11",
        technique="bounded-exhaustive stateless exploration under an owned MILP back end; recomputation oracle",
        note=LP_NOTE + HIST_NOTE),
    "C07": dict(
        category="exploration",
        text="Solver(argv+['-bf']).solve(); get_results() on every instance of the families x {-pc} "
             "x {with, without -twopl}; every printed optimal_* figure and the Infeasible verdict "
             "are compared with an independent enumeration.",
        design_ref="DESIGN.md 5 C07",
        technique="bounded-exhaustive input enumeration vs enumeration reference",
        note="Trusted base: vf/ref.py. Bounded to the listed families."),
    "C08": dict(
        category="model_checking",
        text="The generator's randomness is an owned environment: for each accepted argument vector "
             "of the grid the real Generator(argv) is re-executed once per RNG answer sequence "
             "(all permutations of each shuffle, all values of each randint, all ordered selections "
             "/ 0-1 vectors of each choice), and every file written is parsed by an independent "
             "parser and checked against the requested parameters.",
        design_ref="DESIGN.md 5 C08",
        technique="stateless exhaustive exploration of the implementation over all RNG answers (owned RNG environment)",
        note="Trusted base: vf/rngenv.py (bound to numpy/random by primitive-level outcome-set equality and by real-seed runs whose files must be in the explored set), vf/genfile.py parser. Vectors above the per-vector schedule cap are skipped and reported."),
    "C12": dict(
        category="model_checking",
        text="Same exploration as C08 restricted to two-sided vectors; oracle: each second-side "
             "list contains exactly the agents that list it (or a project of the lecturer), once.",
        design_ref="DESIGN.md 5 C12",
        technique="stateless exhaustive exploration of the implementation over all RNG answers",
        note="As C08."),
    "C13": dict(
        category="exploration",
        text="All 2^n tie-indicator vectors for n up to the bound, first/second side, 2/3-agent "
             "files: real writer -> real create_instance -> real Solver; writer text and reader ranks "
             "compared with the run structure implied by the indicators; plus two second-side "
             "lists over the same agents (all pairs of tie vectors) and an 11 x 11 file with "
             "ids that concatenate equally.",
        design_ref="DESIGN.md 5 C13",
        technique="bounded-exhaustive input enumeration",
        note="Fixed permutation as list content; bounded list length."),
    "C15": dict(
        category="exploration",
        text="Legal generator argument vectors over a grid and every single-fault perturbation; "
             "legal => accepted and files written; illegal => SystemExit(2) with no output directory.",
        design_ref="DESIGN.md 5 C15",
        technique="bounded-exhaustive configuration enumeration incl. all single-fault perturbations",
        note="Only the bounds listed in the property statement are judged."),
    "C16": dict(
        category="exploration",
        text="Exhaustive enumeration of position assignments (all for <=3 criteria over a domain "
             "around 1..9, all 9! permutations, all single corruptions for 4..9 criteria), flag "
             "permutations and extras vectors through Solver(argv) with a non-existent file, plus "
             "real runs checking the order of the reported criteria (whole criterion line incl. "
             "cut-off), on a feasible instance, on an instance without feasible matching and "
             "under an injected Not Solved / unknown status at the first solve (prefix rule).",
        design_ref="DESIGN.md 5 C16",
        technique="bounded-exhaustive configuration enumeration",
        note="Refusal = SystemExit(2) before FileNotFoundError."),
    "C17": dict(
        category="exploration",
        text="create_linear_distribution on n in 1..N x a dense finite grid of skews against an "
             "exact rational reference; all laws of the statement checked; plus, at the RNG seam, "
             "every first-side list of real generator runs must be drawn with exactly these "
             "weights.",
        design_ref="DESIGN.md 5 C17",
        technique="grid enumeration vs exact rational reference",
        note="Finite grid, not the continuum."),
    "C09": dict(
        category="model_checking",
        text="Generator -> solver pipeline: argument vectors of the smaller slice are explored over "
             "every RNG answer sequence; every distinct file is given, as written, to the real "
             "solver under the documented flags in LP mode (every optimal class the back end may "
             "return) and in brute-force mode; oracles: model equals file content (own parser), "
             "valid matching / correct verdict, exact brute-force statistics. Larger vectors go "
             "through loading + brute force only.",
        design_ref="DESIGN.md 5 C09",
        technique="stateless exhaustive exploration over RNG answers composed with exploration over MILP answers",
        note=LP_NOTE + " RNG owned by vf/rngenv.py (see C08)."),
    "C10": dict(
        category="exploration",
        text="Abstract instances x rendering variants (whitespace, trailing blanks, info block, "
             "final newline, order inside tie groups, 2/3-agent layout, multi-digit ids, ties in "
             "the middle of long lists) x {-twopl on/off}; the Model built by Solver(argv) is "
             "compared attribute by attribute with the abstract instance, plus the debug block.",
        design_ref="DESIGN.md 5 C10",
        technique="bounded-exhaustive input enumeration with metamorphic rendering variants",
        note="Grammar boundary as stated in the evidence assumptions."),
    "C14": dict(
        category="fault_enumeration",
        text="At every underlying solve position every failure kind a MILP back end can exhibit is "
             "injected (transient or persistent, three value variants), all schedules with 0, 1 "
             "and 2 deviations; answers are written in CBC's solution-file syntax so PuLP's real "
             "status mapping runs; a virtual clock decides the Timeout rule. Oracle: no matching "
             "or statistic line; first non-optimal status or Timeout.",
        design_ref="DESIGN.md 5 C14",
        technique="exhaustive fault-schedule enumeration (<=2 deviations) at the solver process seam",
        note="Faults cannot be produced by the real CBC on demand; they are injected at pulp.apis.coin_api.subprocess. Fixed instance list."),
    "C18": dict(
        category="model_checking",
        text="Explicit-state BFS over call histories on a live Solver: states are digests of the "
             "whole object graph reached by replaying the history on a fresh real object; every "
             "solve branches over every optimal class; with a time limit a 'tick' event lets "
             "virtual time pass. Oracle: at the end of every history each getter returns the text "
             "it returns when called first after that history's last solve (per-getter fresh "
             "replays); no getter raises; status and criterion values unchanged by re-solving; "
             "matching valid.",
        design_ref="DESIGN.md 5 C18",
        technique="explicit-state BFS over operation histories of the real object with state hashing",
        note="LP mode, timeLimit=None, depth and number of solves bounded as in the evidence."),
}

NOT_YET = "check not built yet in this round (planned, see DESIGN.md section 5)"


def main():
    props = [json.loads(l) for l in open(os.path.join(HERE, "properties.jsonl"))]
    checks = []
    na = []
    for p in props:
        pid = p["id"]
        c = CHECKS.get(pid)
        if c is None or not os.path.exists(
                os.path.join(HERE, "vf", "checks", pid.lower() + ".py")):
            na.append({"property_id": pid, "reason": NOT_YET})
            continue
        checks.append({
            "property_id": pid,
            "quick_cmd": "./check %s --tier quick" % pid,
            "thorough_cmd": "./check %s --tier thorough" % pid,
            "evidence_file": "/verif/evidence/%s.json" % pid,
            "replay_cmd_template": "./check %s --replay {path}" % pid,
            "engine": "vf",
            "level_claimed": {"category": c["category"], "text": c["text"],
                              "design_ref": c["design_ref"]},
            "level_note": c["note"],
            "technique": c["technique"],
        })
    m = {
        "version": 1,
        "setup_cmd": "cd /verif && PYTHONDONTWRITEBYTECODE=1 /venv/bin/python -m vf.selftest",
        "hooks": {
            "guard": "MATCHINGPROBLEMS_VERIF",
            "enable": "no source hook is needed: every seam (pulp.apis.coin_api.subprocess, "
                      "matchingproblems.solver.solver.datetime, generator_shared.np/random) is a "
                      "module attribute replaced from the harness side; checks import /repo's "
                      "working tree directly (editable install + sys.path)",
            "baseline_off_cmd": "cd /repo && /venv/bin/python -m pytest -ra -q -p no:cacheprovider "
                                "--timeout=900 --continue-on-collection-errors",
            "source_commits": [],
            "add_only": True,
        },
        "engines": [
            {"name": "vf", "path": "/verif/vf",
             "serves_properties": [c["property_id"] for c in checks],
             "kind_free_text": "hand-written stateless explorer over the real Python entry points: "
                               "choice-point DFS (vf/explore.py), FakeCBC MILP environment "
                               "(vf/fakecbc.py), RNG environment (vf/rngenv.py), virtual clock, "
                               "enumeration reference (vf/ref.py), 16-process work pool"},
        ],
        "checks": checks,
        "notes": "All checks: exit 0 = held (KNOWN-FINDING lines allowed), exit 1 = VIOLATION "
                 "line(s) with replay file, exit 2 = HARNESS-ERROR. VERIF_SEED only permutes the "
                 "conformance slice; the explored space does not depend on it.",
        "not_applicable": na,
    }
    path = os.path.join(HERE, "MANIFEST.json")
    with open(path, "w") as f:
        json.dump(m, f, indent=1)
        f.write("\n")
    try:
        import jsonschema
        jsonschema.validate(m, json.load(open("/root/.vp/MANIFEST.schema.json")))
        print("MANIFEST valid; %d checks, %d not_applicable" % (len(checks), len(na)))
    except ImportError:
        print("jsonschema not importable here; written unvalidated")


if __name__ == "__main__":
    sys.exit(main())
