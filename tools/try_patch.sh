#!/bin/bash
# tools/try_patch.sh <patch.diff> <check ids...> : apply patch in scratch worktree, run tests + quick checks there
set -u
P=$(readlink -f "$1"); shift
WT=${WT:-/tmp/wt-verify}
if [ ! -d $WT ]; then git -C /repo worktree add -q --detach $WT HEAD; fi
git -C $WT checkout -q --detach $(git -C /repo rev-parse HEAD) && git -C $WT checkout -q -- .
echo "== patch $P"
git -C $WT apply $P || { echo "PATCH DOES NOT APPLY"; exit 3; }
(cd $WT && PYTHONPATH=$WT PYTHONDONTWRITEBYTECODE=1 /venv/bin/python -m pytest -q -p no:cacheprovider 2>&1 | tail -1)
OUT=/tmp/seedout-$$; mkdir -p $OUT
for c in "$@"; do
  out=$(cd ${VDIR:-/verif} && VERIF_REPO=$WT VERIF_OUT_DIR=$OUT ./check $c --tier ${TIER:-quick} 2>&1); rc=$?
  echo "check $c exit=$rc :: $(echo "$out" | grep -E '^(VIOLATION|KNOWN|HARNESS|RESULT)' | head -3 | tr '\n' '|')"
  echo "$out" | grep -E 'fingerprint' | head -3
done
git -C $WT checkout -q -- .
rm -rf $OUT
