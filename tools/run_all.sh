#!/bin/bash
# run every quick (or $1) check on /repo as it is; print one line per check
T=${1:-quick}
cd "$(dirname "$0")/.." || exit 2
for i in 01 02 03 04 05 06 07 08 09 10 11 12 13 14 15 16 17 18; do
  s=$(date +%s)
  out=$(./check C$i --tier $T 2>&1); rc=$?
  e=$(date +%s)
  echo "C$i rc=$rc $((e-s))s $(echo "$out" | grep -E '^(VIOLATION|HARNESS|KNOWN|HarnessError|[A-Za-z]*Error)' | head -3 | cut -c1-600 | tr '\n' '|') $(echo "$out" | grep -E '^RESULT' | cut -c1-150)"
done
