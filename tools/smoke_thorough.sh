#!/bin/bash
# smoke-test every thorough tier with a short budget, thorough-only families first
cd "$(dirname "$0")/.." || exit 2
export VERIF_THOROUGH_BUDGET_S=${1:-420} VERIF_REVERSE_ITEMS=1 VERIF_OUT_DIR=/tmp/smoke-out
mkdir -p $VERIF_OUT_DIR
for i in 01 02 03 04 05 06 07 08 09 10 11 12 13 14 15 16 17 18; do
  s=$(date +%s)
  out=$(./check C$i --tier thorough 2>&1); rc=$?
  e=$(date +%s)
  echo "C$i rc=$rc $((e-s))s $(echo "$out" | grep -E '^(VIOLATION|HARNESS|KNOWN|HarnessError|[A-Za-z]*Error)' | head -3 | cut -c1-700 | tr '\n' '|') $(echo "$out" | grep -E '^RESULT' | cut -c1-150)"
done
