#!/bin/bash
# tools/try_seed.sh <seed-dir with patch.diff demo.py> <check ids...>
# 1. verifies in a scratch worktree: demo passes clean, tests pass + demo fails with the patch
# 2. applies the patch to /repo, runs the given quick checks, reverts.
set -u
D=$(readlink -f "$1"); shift
WT=${WT:-/tmp/wt-verify}
if [ ! -d $WT ]; then git -C /repo worktree add -q --detach $WT HEAD; fi
git -C $WT checkout -q --detach $(git -C /repo rev-parse HEAD) && git -C $WT checkout -q -- . 
echo "== seed $D"
(cd $WT && PYTHONPATH=$WT PYTHONDONTWRITEBYTECODE=1 timeout 600 /venv/bin/python $D/demo.py >/tmp/demo_clean.out 2>&1); echo "demo clean exit=$?"
if ! git -C $WT apply $D/patch.diff; then echo "PATCH DOES NOT APPLY"; exit 3; fi
(cd $WT && PYTHONPATH=$WT PYTHONDONTWRITEBYTECODE=1 /venv/bin/python -m pytest -q -p no:cacheprovider 2>&1 | tail -1)
(cd $WT && PYTHONPATH=$WT PYTHONDONTWRITEBYTECODE=1 timeout 600 /venv/bin/python $D/demo.py >/tmp/demo_patched.out 2>&1); echo "demo patched exit=$?"
tail -3 /tmp/demo_patched.out
git -C $WT checkout -q -- .
git -C $WT apply $D/patch.diff || exit 3
OUT=/tmp/seedout-$$; mkdir -p $OUT
for c in "$@"; do
  out=$(cd ${VDIR:-/verif} && VERIF_REPO=$WT VERIF_OUT_DIR=$OUT ./check $c --tier ${TIER:-quick} 2>&1); rc=$?
  echo "check $c exit=$rc :: $(echo "$out" | grep -E '^(VIOLATION|KNOWN|HARNESS|RESULT)' | head -4 | tr '\n' '|')"
  echo "$out" | grep -E 'fingerprint' | head -3
done
git -C $WT checkout -q -- .
rm -rf $OUT
